(* C18 — Rules and options resolve totally, in-domain, with documented precedence.
   Property-level theorems only (statements proved in proofs/RulesProofs.v and proofs/OptionsProofs.v). *)
From Sup Require Import GenRules GenOptions.
From Coq Require Import Lia Permutation PrimFloat.

(* ---------------------------------------------------------------- rules *)
From Sup Require Import Rules RulesProofs.

(* an application declared by its exact name is found whatever the patterns are (even invalid ones) *)
Theorem C18_lookup_exact_name_app :
  forall d o name a,
  find_app_by_name d name = Some a -> get_application_element d o name = Ok (Some a).
Proof. exact app_exact_name_wins. Qed.

(* ... and it is the first such element in the order of the rules files *)
Theorem C18_lookup_exact_name_first :
  forall d name e ps,
  find_app_by_name d name = Some (e, ps) ->
  exists l1 l2, items d = l1 ++ IApp e ps :: l2 /\ e_name e = Some name
    /\ forall e' ps', In (IApp e' ps') l1 -> e_name e' <> Some name.
Proof. exact app_exact_name_first. Qed.

(* without an exact name: the pattern with the longest capture, the first declared among the longest (is_best); nothing when no pattern matches *)
Theorem C18_lookup_best_pattern_app :
  forall d o name r,
  find_app_by_name d name = None ->
  get_application_element d o name = Ok r ->
  match r with
  | Some a => exists p, is_best o name (akeys (app_patterns_of d)) p /\ aget p (app_patterns_of d) = Some a
  | None => forall p, In p (akeys (app_patterns_of d)) -> orc_get o p name = MNone \/ aget p (app_patterns_of d) = None
  end.
Proof. exact app_pattern_lookup. Qed.

(* same for programs inside the selected application *)
Theorem C18_lookup_exact_name_prog :
  forall d o app proc e ps x,
  get_application_element d o app = Ok (Some (e, ps)) ->
  find (fun e => opt_Zeqb (e_name e) proc) ps = Some x ->
  get_program_element d o app proc = Ok (Some x, false).
Proof. exact prog_exact_name_wins. Qed.

(* same for programs; is_pattern is set exactly then *)
Theorem C18_lookup_best_pattern_prog :
  forall d o app proc e ps x b,
  get_application_element d o app = Ok (Some (e, ps)) ->
  find (fun e => opt_Zeqb (e_name e) proc) ps = None ->
  get_program_element d o app proc = Ok (Some x, b) ->
  b = true /\ exists p, is_best o proc (akeys (prog_patterns_of ps)) p /\ aget p (prog_patterns_of ps) = Some x.
Proof. exact prog_pattern_lookup. Qed.

(* absent application: unmanaged, only check_dependencies applies *)
Theorem C18_lookup_absent_app :
  forall d o ev name idx r0,
  get_application_element d o name = Ok None ->
  load_application_rules d o ev name idx r0 = app_check_dependencies ev idx r0.
Proof. exact app_absent_unmanaged. Qed.

(* absent program: the initial rules through check_dependencies *)
Theorem C18_lookup_absent_prog :
  forall d o app proc r0,
  get_program_element d o app proc = Ok (None, false) ->
  load_program_rules d o app proc r0 = Ok (check_dependencies false r0).
Proof. exact prog_absent_defaults. Qed.

(* a lookup raises only on a pattern that is not a regular expression *)
Theorem C18_lookup_crash_only_bad_regex :
  forall d o name k,
  get_application_element d o name = Crash k ->
  k = ReError /\ exists p, In p (akeys (app_patterns_of d)) /\ orc_get o p name = MErr.
Proof. exact app_lookup_crash. Qed.

(* load_model_rules (structural recursion on the LOOP_CHECK counter: total on every document, cycles included) loads exactly the chain, deepest first *)
Theorem C18_model_depth_chain :
  forall models aliases fuel e r,
  load_model_rules models aliases e r fuel = fold_right (load_elt_fields aliases) r (chain models e fuel).
Proof. exact load_model_rules_chain. Qed.

(* the chain has at most LOOP_CHECK = 3 elements: the program element and 2 models *)
Theorem C18_model_depth_bound :
  forall models e, (length (chain models e loop_check_init) <= 3)%nat.
Proof. exact chain_bounded. Qed.

(* ... exactly: element, its model, the model of its model *)
Theorem C18_model_depth_shape :
  forall models e,
  chain models e loop_check_init =
  e :: match get_model_element models e with
       | None => []
       | Some m1 => m1 :: match get_model_element models m1 with None => [] | Some m2 => [m2] end
       end.
Proof. exact chain_shape. Qed.

(* a cyclic pair of models terminates with prg, m1, m2 loaded *)
Theorem C18_model_depth_cycle :
  let m1 := mkElt (Some 10) None [FRef 11; FStart (PInt 5); FLoading (PInt 30)] in
  let m2 := mkElt (Some 11) None [FRef 10; FStart (PInt 7); FRequired (PBool true); FStop (PInt (-4))] in
  let prg := mkElt (Some 20) None [FRef 10; FLoading (PInt 200)] in
  let d := [[IModel m1; IModel m2; IApp (mkElt (Some 30) None []) [prg]]] in
  rmap obs_prules (load_program_rules d [] 30 20 (prules_init 0 0))
  = Ok (([S_STAR], [], []), 5, 5, true, false, 30, 0, 0)
  /\ chain (models_of d) prg loop_check_init = [prg; m1; m2].
Proof. exact cyclic_models_terminate. Qed.

(* each scalar rule = the first in-domain value from the element along the chain, else the initial value *)
Theorem C18_supersede_and_frame :
  forall models aliases e r,
  let ch := chain models e loop_check_init in
  let r' := load_model_rules models aliases e r loop_check_init in
  p_start r' = first_valid f_start valid_sequence ch (p_start r)
  /\ p_stop r' = first_valid f_stop valid_sequence ch (p_stop r)
  /\ p_required r' = first_valid f_required valid_bool ch (p_required r)
  /\ p_wait_exit r' = first_valid f_wait_exit valid_bool ch (p_wait_exit r)
  /\ p_load r' = first_valid f_loading valid_loading ch (p_load r)
  /\ p_sfs r' = first_valid f_sfs (valid_enum gr_StartingFailureStrategies_values) ch (p_sfs r)
  /\ p_rfs r' = first_valid f_rfs (valid_enum gr_RunningFailureStrategies_values) ch (p_rfs r).
Proof. exact scalar_rules_first_valid. Qed.

(* an element whose values are all empty or out of domain leaves the whole record unchanged *)
Theorem C18_domain_frame :
  forall aliases e r,
  (forall f, In f (e_fields e) -> field_inert f) -> load_elt_fields aliases e r = r.
Proof. exact domain_frame_element. Qed.

(* required without start_sequence is dropped *)
Theorem C18_dependencies_required_dropped :
  forall b r, p_start r = 0 -> p_required (check_dependencies b r) = false.
Proof. exact required_dropped. Qed.

(* stop_sequence defaults to start_sequence *)
Theorem C18_dependencies_stop_defaults :
  forall b r, p_stop r < 0 -> p_stop (check_dependencies b r) = p_start r.
Proof. exact stop_defaults_to_start. Qed.

(* '@' / '#' from a non-pattern element are reset *)
Theorem C18_dependencies_signs_from_patterns :
  forall r,
  let t := p_idt (check_dependencies false r) in
  i_at t = [] /\ i_hash t = []
  /\ (i_at (p_idt r) <> [] \/ i_hash (p_idt r) <> [] -> i_ids t = [S_STAR])
  /\ (i_at (p_idt r) = [] -> i_hash (p_idt r) = [] -> i_ids t = i_ids (p_idt r)).
Proof. exact signs_only_from_patterns. Qed.

(* '@' wins over '#' *)
Theorem C18_dependencies_at_wins :
  forall r,
  i_at (p_idt r) <> [] -> i_hash (p_idt r) <> [] ->
  let t := p_idt (check_dependencies true r) in
  i_at t = i_at (p_idt r) /\ i_hash t = [] /\ i_ids t = i_ids (p_idt r).
Proof. exact at_wins_over_hash. Qed.

(* identifier lists are duplicate-free and without empty names *)
Theorem C18_aliases_clean :
  forall aliases toks,
  NoDup (check_identifier_list aliases toks) /\ ~ In S_EMPTY (check_identifier_list aliases toks).
Proof. exact check_identifier_list_clean. Qed.

(* an alias replaces its first occurrence only, in place, by its content in order *)
Theorem C18_aliases_first_occurrence :
  forall x b l, In x l ->
  exists l1 l2, l = l1 ++ x :: l2 /\ ~ In x l1 /\ replace_first x b l = l1 ++ b ++ l2.
Proof. exact replace_first_present. Qed.

(* aliases are applied in declaration order *)
Theorem C18_aliases_declaration_order :
  (* <alias name="10">11,12</alias> <alias name="11">20,21</alias> : identifiers "10,30" *)
  check_identifier_list [(10, [11; 12]); (11, [20; 21])] [10; 30] = [20; 21; 12; 30]
  (* the other way round, alias 11 is not expanded inside alias 10 *)
  /\ check_identifier_list [(11, [20; 21]); (10, [11; 12])] [10; 30] = [11; 12; 30]
  (* only the first occurrence of an alias is expanded; the second one stays (and is filtered later by the mapper) *)
  /\ check_identifier_list [(10, [20])] [10; 30; 10] = [20; 30; 10].
Proof. exact alias_order_matters. Qed.

(* '@': injective, inside the list, disjoint from identifiers already taken, bounded by the list *)
Theorem C18_assign_at_spec :
  forall ev g atl,
  NoDup (instances ev) -> gr_at g = Some atl ->
  let plan := at_plan ev g in
  let ref := ref_identifiers ev atl in
  NoDup (map snd plan)
  /\ (forall i, In i (map snd plan) -> In i ref /\ ~ In i (assigned_identifiers (sorted_procs (gr_procs g))))
  /\ NoDup (map (fun kpi => fst (fst kpi)) plan)
  /\ (forall kp, In kp (map fst plan) -> In kp (sorted_procs (gr_procs g)) /\ i_at (g_idt (snd kp)) <> [])
  /\ (length plan <= length ref)%nat.
Proof. exact assign_at_injective_bounded. Qed.

(* '#' on a fresh group: k-th process -> (k mod n)-th identifier; no exception when one name is known *)
Theorem C18_assign_hash_spec :
  forall ev g hl,
  NoDup (instances ev) -> gr_hash g = Some hl ->
  (forall p, In p (gr_procs g) -> i_ids (g_idt p) = []) ->
  let ref := ref_identifiers ev hl in
  ref <> [] ->
  let order := sorted_procs (gr_procs g) in
  let waiting := filter (fun kp => negb (is_nil (i_hash (g_idt (snd kp))))) order in
  assign_hash ev g =
  Ok (mkGroup (apply_hash ref (gr_procs g)
                 (combine waiting (map (fun k => (k mod length ref)%nat) (seq 0 (length waiting)))))
              (gr_at g) (gr_hash g))
  \/ (waiting = [] /\ assign_hash ev g = Ok g).
Proof. exact assign_hash_round_robin. Qed.

(* resolve_rules raises only inside the two known classes *)
Theorem C18_resolve_total :
  forall ev g,
  truthy (gr_at g) && truthy (gr_hash g) = false ->
  class_hash_foreign ev g = false -> class_hash_empty_ref ev g = false ->
  exists g', resolve_rules ev g = Ok g'.
Proof. exact resolve_rules_total. Qed.

(* MODEL REFINES SPEC (programs) *)
Theorem C18_program_rules_refine_spec :
  forall d o app proc sfs0 rfs0 r',
  spec_program_rules d o app proc sfs0 rfs0 = Some r' ->
  class_sign_kept (aliases_of d) (program_chain d o app proc) = false ->
  load_program_rules d o app proc (prules_init sfs0 rfs0) = Ok r'.
Proof. exact program_rules_refine_spec. Qed.

(* MODEL REFINES SPEC (applications) *)
Theorem C18_application_rules_refine_spec :
  forall d o ev name idx s0 r',
  spec_app_rules d o ev name idx s0 = Some (r', true) ->
  load_application_rules d o ev name idx (arules_init s0) = Ok r'.
Proof. exact application_rules_refine_spec. Qed.

(* KNOWN FINDING model-sign-kept *)
Theorem C18_model_sign_kept_refuted :
  exists d o app proc r r',
    load_program_rules d o app proc (prules_init 0 0) = Ok r
    /\ spec_program_rules d o app proc 0 0 = Some r'
    /\ i_hash (p_idt r) = [10; 11] /\ i_hash (p_idt r') = [] /\ i_ids (p_idt r) = [12] /\ i_ids (p_idt r') = [12].
Proof. exact model_sign_kept_refuted. Qed.

(* KNOWN FINDING hash-empty-ref *)
Theorem C18_hash_empty_ref_refuted :
  exists ev g, resolve_rules ev g = Crash ValueError
               /\ gr_procs g = [mkG 0 (mkI [] [] [50])] /\ instances ev = [10; 11].
Proof. exact hash_empty_ref_refuted. Qed.

(* KNOWN FINDING hash-foreign-id *)
Theorem C18_hash_foreign_id_refuted :
  exists ev g, resolve_rules ev g = Crash KeyError
               /\ gr_procs g = [mkG 0 (mkI [] [] [S_STAR]); mkG 1 (mkI [S_STAR] [] [])] /\ instances ev = [10; 11].
Proof. exact hash_foreign_id_refuted. Qed.

(* the reflected Parser.LOOP_CHECK is the documented depth 3 *)
Theorem C18_loop_check_as_documented :
  loop_check_init = doc_depth.
Proof. exact loop_check_as_documented. Qed.

(* a group without sign is left as it is, as the specification demands *)
Theorem C18_resolve_no_sign_unchanged :
  forall ev g,
  no_sign (gr_procs g) = true ->
  exists g', resolve_rules ev g = Ok g' /\ group_obs g' = group_obs g
             /\ spec_resolve ev g = Some (group_obs g).
Proof. exact resolve_no_sign_unchanged. Qed.

(* '@' on a uniform group: exactly spec_at *)
Theorem C18_resolve_at_refines_spec :
  forall ev g L,
  NoDup (instances ev) ->
  gr_at g = Some L -> L <> [] -> truthy (gr_hash g) = false ->
  uniform_at (gr_procs g) = Some L ->
  exists g', resolve_rules ev g = Ok g' /\ group_obs g' = spec_at ev L (gr_procs g).
Proof. exact resolve_at_refines_spec. Qed.

(* '#' on a fresh uniform group: exactly spec_hash_fresh *)
Theorem C18_resolve_hash_refines_spec :
  forall ev g L,
  NoDup (instances ev) ->
  gr_hash g = Some L -> truthy (gr_at g) = false ->
  uniform_hash (gr_procs g) = Some L -> fresh (gr_procs g) = true ->
  ref_identifiers ev L <> [] ->
  exists g', resolve_rules ev g = Ok g'
             /\ group_obs g' = spec_hash_fresh (ref_identifiers ev L) (gr_procs g).
Proof. exact resolve_hash_refines_spec. Qed.

(* MODEL REFINES SPEC (resolution of a homogeneous group) *)
Theorem C18_resolution_refines_spec :
  forall ev g ts,
  NoDup (instances ev) ->
  spec_resolve ev g = Some ts ->
  class_hash_empty_ref ev g = false ->
  exists g', resolve_rules ev g = Ok g' /\ group_obs g' = ts.
Proof. exact resolution_refines_spec. Qed.

(* a homogeneous group whose processes got different '@' lists: nothing is specified (regression of a false alarm) *)
Theorem C18_inconsistent_group_unspecified :
  let ev := mkEnv [10; 11; 12; 13] [(20, 10)] [] in
  let g := mkGroup [mkG 2 (mkI [] [S_STAR] []); mkG 0 (mkI [10] [] [])] (Some [14; 20]) None in
  uniform_at (gr_procs g) = Some [S_STAR] /\ spec_resolve ev g = None
  /\ rmap group_obs (resolve_rules ev g) = Ok [([], [S_STAR], []); ([10], [], [])].
Proof. exact inconsistent_group_unspecified. Qed.

(* ---------------------------------------------------------------- options *)
From Sup Require Import Options OptionsProofs.

(* the ranges measured on the converters and the reflected constants are the documented ones *)
Theorem C18_ranges_as_documented :
  (go_ttl_min, go_ttl_max) = doc_ttl /\ (go_port_min, go_port_max) = doc_port
  /\ (go_timeout_min, go_timeout_max) = doc_timeout /\ (go_ticks_min, go_ticks_max) = doc_ticks
  /\ (go_histo_min, go_histo_max) = doc_histo
  /\ (go_SYNCHRO_TIMEOUT_MIN, go_SYNCHRO_TIMEOUT_MAX) = doc_timeout
  /\ (go_INACTIVITY_TICKS_MIN, go_INACTIVITY_TICKS_MAX) = doc_ticks
  /\ go_SYNCHRO_DEFAULT_OPTIONS = doc_synchro_default
  /\ float_same go_period_min doc_period_min = true /\ float_same go_period_max doc_period_max = true.
Proof. exact ranges_as_documented. Qed.

(* the defaults of the options are the documented ones *)
Theorem C18_defaults_as_documented :
  go_default_ttl = 1 /\ go_default_timeout = 15 /\ go_default_ticks = 2 /\ go_default_histo = 200
  /\ go_default_auto_fence = false /\ go_default_irix = false
  /\ go_default_event_link = go_EventLinks_NONE /\ go_default_conciliation = go_ConciliationStrategies_USER
  /\ go_default_starting = go_StartingStrategies_CONFIG
  /\ go_default_failure = go_SupvisorsFailureStrategies_CONTINUE
  /\ go_default_host_stats = true /\ go_default_proc_stats = true
  /\ go_default_stats_periods = [10] /\ go_default_tail_limit = 1024.
Proof. exact defaults_as_documented. Qed.

(* an integer option is in its range or at its default *)
Theorem C18_options_int_in_range :
  forall lo hi dflt v,
  let r := conv_int lo hi dflt v in (lo <= r <= hi) \/ r = dflt.
Proof. exact conv_int_in_range. Qed.

(* ... and it is kept exactly when it lies in the range *)
Theorem C18_options_int_spec :
  forall lo hi dflt v, conv_int lo hi dflt v = spec_int (lo, hi) dflt v.
Proof. exact conv_int_spec. Qed.

(* an enumerated option is a member or the default *)
Theorem C18_options_enum_in_domain :
  forall values dflt v,
  let r := conv_enum values dflt v in In r values \/ r = dflt.
Proof. exact conv_enum_in_domain. Qed.

(* a period is accepted or is the default *)
Theorem C18_options_period_accepted :
  forall dflt v,
  let r := conv_period dflt v in period_refused r = false \/ r = dflt.
Proof. exact conv_period_accepts_or_default. Qed.

(* EVERY accepted period lies in [1;3600] (F21 repaired) *)
Theorem C18_options_period_in_range :
  forall p, period_refused p = false -> period_in_range p = true.
Proof. exact accepted_period_in_range. Qed.

(* 1 to 3 accepted periods, or the default *)
Theorem C18_options_periods_accepted :
  forall dflt v,
  let r := conv_periods dflt v in
  r = dflt \/ ((1 <= length r <= 3)%nat /\ forall p, In p r -> period_refused p = false).
Proof. exact conv_periods_accepts_or_default. Qed.

(* F21 repaired: a nan period falls back to the default *)
Theorem C18_to_period_nan_rejected :
  forall dflt, conv_period dflt (FVal nan) = dflt.
Proof. exact to_period_nan_rejected. Qed.

(* F21 repaired: a list holding a nan falls back to the default *)
Theorem C18_to_periods_nan_rejected :
  forall dflt l, In (Some nan) l -> conv_periods dflt (PToks l) = dflt.
Proof. exact to_periods_nan_rejected. Qed.

(* CORE / STRICT dropped with empty lists; refusal iff nothing is left; TIMEOUT forces CONTINUE *)
Theorem C18_check_options_rules :
  forall cd c,
  NoDup (start_synchro cd c) ->
  let sync := checked_synchro (start_synchro cd c) c in
  (strs_empty (c_core_identifiers c) = true -> ~ In go_SynchronizationOptions_CORE sync)
  /\ (strs_empty (c_supvisors_list c) = true -> ~ In go_SynchronizationOptions_STRICT sync)
  /\ (forall x, In x sync -> In x (start_synchro cd c))
  /\ match fst (build cd c) with
     | Crash k => k = ValueError /\ sync = []
     | Ok o => sync <> [] /\ o_synchro_options o = sync
               /\ (In go_SynchronizationOptions_TIMEOUT sync -> o_failure o = go_SupvisorsFailureStrategies_CONTINUE)
               /\ (~ In go_SynchronizationOptions_TIMEOUT sync ->
                   o_failure o = conv_enum go_SupvisorsFailureStrategies_values go_default_failure (c_failure c))
     end.
Proof. exact check_options_rules. Qed.

(* no construction alters the class-level default of synchro_options (aliasing repaired) *)
Theorem C18_class_default_frame :
  forall cd c, snd (build cd c) = cd.
Proof. exact class_default_frame. Qed.

(* constructions in a row are independent *)
Theorem C18_constructions_independent :
  forall cs, run cs = map (build go_SYNCHRO_DEFAULT_OPTIONS) cs.
Proof. exact constructions_independent. Qed.

(* the former aliasing witness now gets the documented default *)
Theorem C18_synchro_default_kept :
  exists o1 o2, map fst (run [empty_config; lists_config]) = [Ok o1; Ok o2]
    /\ o_synchro_options o1 = [go_SynchronizationOptions_TIMEOUT]
    /\ o_synchro_options o2 = doc_synchro_default.
Proof. exact synchro_default_kept. Qed.

(* MODEL REFINES SPEC (options), every configuration *)
Theorem C18_options_refine_spec :
  forall c, check_one c (build doc_synchro_default c) = true.
Proof. exact options_refine_spec. Qed.

(* MODEL REFINES SPEC (options), every sequence of constructions *)
Theorem C18_options_sequences_refine_spec :
  forall cs, check_all cs (run cs) = true.
Proof. exact options_sequences_refine_spec. Qed.

(* documentation discrepancy: default 5, documented 10 *)
Theorem C18_collecting_period_default_vs_doc :
  go_default_collecting_period = 5 /\ go_default_collecting_period <> 10.
Proof. exact collecting_period_default_differs_from_doc. Qed.
