(* C19 — Start predictions are side-effect free and match a real start: property-level theorems
   (model in model/Prediction.v, proofs in proofs/PredictionProofs.v). *)
From Sup Require Import Base ProcStatus Prediction PredictionProofs.

(* PURITY. Any sequence of predictions — whatever the placement functions (hence every strategy), the requests
   (test_start_application / test_start_processes, any list of processes), the applications — built with the current
   code (fresh copy of every info dictionary, `after` overridden) leaves the live view of a well-formed heap exactly
   as it was: every info dictionary reachable from a live process, every process state / forced state / running set,
   the application states, the instance loads derived from them, the real Starter / Stopper jobs, the request log. *)
Theorem C19_prediction_pure :
  forall (l : list preq) cx,
    heap_wf cx = true ->
    heap_wf (predict_seq current_code l cx) = true
    /\ status_view (predict_seq current_code l cx) = status_view cx
    /\ status_of (observe_ctx (predict_seq current_code l cx)) = status_of (observe_ctx cx).
Proof. exact prediction_pure_seq. Qed.

(* k repetitions of one request with the real strategies: nothing reported changes and the k answers are equal. *)
Theorem C19_prediction_pure_repeated :
  forall ra a req k cx,
    heap_wf cx = true ->
    status_of (observe_ctx (fst (predict_n current_code ra a req k cx))) = status_of (observe_ctx cx)
    /\ forall p, In p (snd (predict_n current_code ra a req k cx)) -> p = snd (predict_std current_code ra a req cx).
Proof. exact prediction_pure_repeated. Qed.

(* No request is sent and no real job is planned, whatever the starting failure strategy. *)
Theorem C19_prediction_sends_no_request :
  forall place ra a req cx,
    cx_reqs (fst (predict current_code place ra a req cx)) = cx_reqs cx
    /\ cx_jobs (fst (predict current_code place ra a req cx)) = cx_jobs cx.
Proof. exact prediction_sends_no_request. Qed.

(* Regression theorems: the two earlier versions of the code do not satisfy the statement. *)
Theorem C19_prediction_shallow_refuted :
  exists cx a req, heap_wf cx = true
                   /\ status_eqb (observe_ctx (fst (predict_std shallow_code None a req cx))) (observe_ctx cx) = false.
Proof. exact prediction_shallow_refuted. Qed.

Theorem C19_prediction_inherited_after_refuted :
  exists cx a req, heap_wf cx = true
                   /\ cx_reqs (fst (predict_std inherited_after_code None a req cx)) <> cx_reqs cx.
Proof. exact prediction_inherited_after_refuted. Qed.

(* The reported rules: untouched by a process request and when no '@' / '#' rule is pending ... *)
Theorem C19_prediction_rules_pure_partial :
  forall V place ra a req cx,
    H_rules_resolved ra req cx -> cx_rules (fst (predict V place ra a req cx)) = cx_rules cx.
Proof. exact prediction_rules_pure_partial. Qed.

(* ... KNOWN FINDING c19-prediction-resolves-live-rules: test_start_application resolves them on the live application *)
Theorem C19_prediction_resolves_rules_refuted :
  exists cx a req ra, heap_wf cx = true /\ cx_rules (fst (predict_std current_code ra a req cx)) <> cx_rules cx.
Proof. exact prediction_resolves_rules_refuted. Qed.

(* MATCH (partial). Prediction and real start fed with "every process starts normally" are the same run of the
   machine (same placements, same order), for EVERY placement function, when
     - the request is for an application or for one process,
     - every sequence group but the last one only holds processes of load 0,
     - no wait_exit process keeps a stale unexpected-exit flag.
   Each hypothesis is necessary: the three refutations below are the known findings. *)
Theorem C19_prediction_matches_real_partial :
  forall place inp req,
    H_app_or_single_process req = true ->
    H_loads_never_bind_across_groups inp req = true ->
    H_expected_fresh inp = true ->
    places_of (run place Model inp req) = places_of (run place Real inp req).
Proof. exact prediction_matches_real_partial. Qed.

Theorem C19_prediction_matches_real_ctx :
  forall a req cx,
    H_app_or_single_process req = true ->
    H_loads_never_bind_across_groups (inp_of_view (view_of cx) a) req = true ->
    H_expected_fresh (inp_of_view (view_of cx) a) = true ->
    predicted_places a req cx = real_places a req cx.
Proof. exact prediction_matches_real_ctx. Qed.

(* KNOWN FINDING c19-prediction-ignores-predicted-load (F23) *)
Theorem C19_prediction_ignores_own_load_refuted :
  exists cx a req,
    let inp := inp_of_view (view_of cx) a in
    H_app_or_single_process req = true /\ H_expected_fresh inp = true
    /\ predicted_places a req cx = Ok [(1, 1); (2, 1)] /\ real_places a req cx = Ok [(1, 1); (2, 2)].
Proof. exact prediction_ignores_own_load_refuted. Qed.

(* KNOWN FINDING c19-prediction-stale-expected *)
Theorem C19_prediction_stale_expected_refuted :
  exists cx a req,
    let inp := inp_of_view (view_of cx) a in
    H_app_or_single_process req = true /\ H_loads_never_bind_across_groups inp req = true
    /\ predicted_places a req cx = Ok [(1, 1)] /\ real_places a req cx = Ok [(1, 1); (2, 1)].
Proof. exact prediction_stale_expected_refuted. Qed.

(* KNOWN FINDING c19-prediction-group-order *)
Theorem C19_prediction_group_order_refuted :
  exists cx a req,
    let inp := inp_of_view (view_of cx) a in
    H_loads_never_bind_across_groups inp req = true /\ H_expected_fresh inp = true
    /\ predicted_places a req cx = Ok [] /\ real_places a req cx = Ok [(1, 1)].
Proof. exact prediction_group_order_refuted. Qed.

(* The recursion of ApplicationJobs.next and the event loop of feed_model are modelled with fuel: the fuel of the
   model is always sufficient (an OutOfFuel result can only come from the placement function itself). *)
Theorem C19_run_never_out_of_fuel :
  forall place md inp req,
    (forall a b c d e, place a b c d e <> Crash OutOfFuel) ->
    run place md inp req <> Crash OutOfFuel.
Proof. exact run_never_out_of_fuel. Qed.

(* The hypotheses are satisfiable on non-trivial situations. *)
Example C19_hypotheses_satisfiable :
  let cx := build_ctx w_cd_ok in
  let inp := inp_of_view (view_of cx) 1 in
  H_app_or_single_process (RApp 1) = true /\ H_loads_never_bind_across_groups inp (RApp 1) = true
  /\ H_expected_fresh inp = true /\ heap_wf cx = true
  /\ predicted_places 1 (RApp 1) cx = Ok [(1, 1); (2, 1); (3, 2)].
Proof. exact matches_real_hyps_ok. Qed.
