(* C16 (termination part) — the `while` loop of FiniteStateMachine.set_state terminates: the carve-out
   [Crash OutOfFuel] of C16 is void under consistent options. Property-level theorems only; proofs in
   proofs/NodeTermination.v.

   Reading guide.
   * [set_state fuel n d orcs now acc] : the loop, one unit of fuel per accepted transition; [loop_fuel] = 40 is what
     [fsm_run] / [step] give it; [Crash OutOfFuel] = "more than [fuel] transitions". [loop_bound] = 9.
   * [WF n] : as in C16 (local instance known, instance_states mirrors the statuses, same keys in the views, nicks).
   * [opts_consistent n] : (1) TIMEOUT among the synchro options forces the CONTINUE failure strategy (what
     SupvisorsOptions.check_options does); (2) under the RESYNC strategy, whatever the stable identifiers S (and the
     number V of known instances), a satisfied synchronization condition among STRICT / LIST / CORE implies that
     _check_failure_strategy (first configured of USER, CORE, STRICT, LIST) reports no failure. Holds for: every
     configuration with TIMEOUT (the default), CONTINUE, SHUTDOWN without TIMEOUT, USER, a single one of
     STRICT / LIST / CORE, STRICT + CORE with non-empty core identifiers among the declared ones. It depends on
     the options, core_identifiers and initial_identifiers only, hence is preserved by every event.
     [loop_coherent n] is the weaker form actually used (the two conjuncts merged: TIMEOUT counts as an always
     satisfiable condition).
   * [oracles_constant orcs] : the process-plane oracles of one event are all equal; only the conflict oracle matters
     ([conflict_constant]): OPERATION <-> CONCILIATION alternate as long as it alternates.
   * Not covered (remains): LIST combined with STRICT or CORE under RESYNC (coherent only through facts on the
     reachable stable identifiers: all instances RUNNING implies the declared ones RUNNING). *)
From Sup Require Import Node NodeSpec NodeFsmProofs NodeTermination.

(* ---- the bound: at most 9 transitions, whatever the fuel beyond ---- *)
Theorem C16term_set_state_bounded : forall fuel n d orcs now acc, WF n -> opts_consistent n -> oracles_constant orcs ->
  (loop_bound <= fuel)%nat ->
  set_state fuel n d orcs now acc = set_state loop_bound n d orcs now acc
  /\ exists n' outs, set_state loop_bound n d orcs now acc = Ok (n', outs) /\ WF n'.
Proof. exact set_state_bounded. Qed.

(* same under the weakest hypotheses used *)
Theorem C16term_set_state_bounded_gen : forall fuel n d orcs now acc, WF n -> loop_coherent n -> conflict_constant orcs ->
  (loop_bound <= fuel)%nat ->
  set_state fuel n d orcs now acc = set_state loop_bound n d orcs now acc
  /\ exists n' outs, set_state loop_bound n d orcs now acc = Ok (n', outs) /\ WF n'.
Proof. exact set_state_bounded_gen. Qed.

Theorem C16term_opts_consistent_coherent : forall n, opts_consistent n -> loop_coherent n.
Proof. exact opts_consistent_coherent. Qed.

Theorem C16term_oracles_constant_conflict : forall orcs, oracles_constant orcs -> conflict_constant orcs.
Proof. exact oracles_constant_conflict. Qed.

(* the loop of the model (fuel 40) *)
Theorem C16term_set_state_terminates_partial : forall n d orcs now acc, WF n -> opts_consistent n -> oracles_constant orcs ->
  exists r, set_state loop_fuel n d orcs now acc = r /\ r <> Crash OutOfFuel.
Proof. exact set_state_terminates_partial. Qed.

Theorem C16term_set_state_terminates : forall n d orcs now acc, WF n -> opts_consistent n -> oracles_constant orcs ->
  exists n' outs, set_state loop_fuel n d orcs now acc = Ok (n', outs) /\ WF n'.
Proof. exact set_state_terminates. Qed.

(* the rank behind the bound: on a quiet node (no FAILED / CHECKED instance) one transition keeps the node quiet and
   strictly decreases a rank that is at most 7 *)
Theorem C16term_settled_step : forall n ns c orc now n3 o3 d3, WF n -> ClusterProofs.quiet n -> loop_coherent n ->
  or_conflict orc = c -> cont n (Some ns) = Some ns -> loop_step n ns orc now = Ok (n3, o3, d3) ->
  WF n3 /\ ClusterProofs.quiet n3 /\ loop_coherent n3 /\
  forall ns', cont n3 d3 = Some ns' -> (rk n3 c ns' < rk n c ns)%nat.
Proof. exact settled_step. Qed.

Theorem C16term_rk_bounds : forall n c ns, (1 <= rk n c ns <= 7)%nat.
Proof. exact rk_bounds. Qed.

(* ---- FiniteStateMachine.next, one event, a history ---- *)
Theorem C16term_fsm_run_terminates : forall n orcs now, WF n -> opts_consistent n -> oracles_constant orcs ->
  exists n' outs, fsm_run n orcs now = Ok (n', outs) /\ WF n'.
Proof. exact fsm_run_terminates. Qed.

Theorem C16term_step_never_out_of_fuel : forall n e, WF n -> opts_consistent n -> event_oracles_constant e ->
  step n e <> Crash OutOfFuel.
Proof. exact step_never_out_of_fuel. Qed.

(* C16_node_no_crash_partial without its carve-out *)
Theorem C16term_node_no_crash : forall n e, WF n -> wf_event n e = true -> opts_consistent n -> event_oracles_constant e ->
  exists n' outs, step n e = Ok (n', outs) /\ WF n' /\ opts_consistent n'.
Proof. exact node_no_crash. Qed.

Theorem C16term_run_never_out_of_fuel : forall evs n, WF n -> opts_consistent n -> Forall event_oracles_constant evs ->
  ~ In (NCrash OutOfFuel) (run n evs).
Proof. exact run_never_out_of_fuel. Qed.

(* C16_run_no_crash without its carve-out: along a well-formed history nothing at all is raised *)
Theorem C16term_run_no_crash_total : forall evs n, WF n -> wf_hist n evs -> opts_consistent n ->
  Forall event_oracles_constant evs -> forall k, ~ In (NCrash k) (run n evs).
Proof. exact run_no_crash_total. Qed.

(* ---- configurations that are consistent ---- *)
Theorem C16term_consistent_continue : forall n, o_fstrategy (n_opts n) = FS_CONTINUE -> opts_consistent n.
Proof. exact opts_consistent_continue. Qed.

Theorem C16term_consistent_not_resync : forall n,
  (o_timeout (n_opts n) = true -> o_fstrategy (n_opts n) = FS_CONTINUE) ->
  o_fstrategy (n_opts n) <> FS_RESYNC -> opts_consistent n.
Proof. exact opts_consistent_not_resync. Qed.

Theorem C16term_consistent_user : forall n, o_timeout (n_opts n) = false -> o_user (n_opts n) = true -> opts_consistent n.
Proof. exact opts_consistent_user. Qed.

Theorem C16term_consistent_single : forall n, o_timeout (n_opts n) = false ->
  (o_strict (n_opts n) && o_list (n_opts n) || o_strict (n_opts n) && o_core (n_opts n)
   || o_list (n_opts n) && o_core (n_opts n)) = false -> opts_consistent n.
Proof. exact opts_consistent_single. Qed.

Theorem C16term_consistent_strict_core : forall n, o_timeout (n_opts n) = false -> o_list (n_opts n) = false ->
  n_core n <> [] -> subset (n_core n) (n_initial n) = true -> opts_consistent n.
Proof. exact opts_consistent_strict_core. Qed.

(* ---- the hypotheses are needed ---- *)
(* each conjunct of opts_consistent: the two livelock witnesses (C16_set_state_loops_on_inconsistent_options and
   ClusterProofs.set_state_livelock) satisfy one conjunct each, are well-formed, have constant oracles, and loop for ever *)
Theorem C16term_opts_consistent_needed :
  (exists n d orcs now, WF n /\ oracles_constant orcs /\ conj_resync n /\ ~ conj_timeout n /\
     forall fuel acc, set_state fuel n d orcs now acc = Crash OutOfFuel)
  /\
  (exists n d orcs now, WF n /\ oracles_constant orcs /\ conj_timeout n /\ ~ conj_resync n /\
     forall fuel acc, set_state fuel n d orcs now acc = Crash OutOfFuel).
Proof. exact opts_consistent_needed. Qed.

Theorem C16term_opts_consistent_conj : forall n, opts_consistent n <-> conj_timeout n /\ conj_resync n.
Proof. exact opts_consistent_conj. Qed.

(* the oracles: with a conflict oracle that alternates at every evaluation the Master goes OPERATION -> CONCILIATION ->
   OPERATION ... once per oracle: 42 oracles exhaust the fuel, on a well-formed node with the default options *)
Theorem C16term_alternating_conflicts_exhaust_fuel :
  WF alt_node /\ opts_consistent alt_node /\ fsm_run alt_node (alt_orcs 42 true) 100 = Crash OutOfFuel.
Proof. exact alternating_conflicts_exhaust_fuel. Qed.

(* ---- the hypotheses are satisfiable, the loops are long ---- *)
(* a late joiner runs OFF -> SYNCHRONIZATION -> ELECTION -> DISTRIBUTION -> OPERATION in one call of next():
   four transitions of the loop, reached from the initial node by a well-formed history *)
Theorem C16term_ex_long_loop :
  WF late_node /\ opts_consistent late_node /\ event_oracles_constant (LocalTick 2 20 [orc0]) /\
  pubs (run late_node [LocalTick 2 20 [orc0]]) = [[0; 1; 1; 2; 3; 4; 4]] /\
  pubs (run (ex3_node true) late_hist) = [[0; 0]; [0]; [0]; [0]; [0]; [0; 1; 1; 2; 3; 4; 4]].
Proof. exact ex_long_loop. Qed.

(* the RESYNC strategy with a coherent option set: OPERATION -> SYNCHRONIZATION, and the loop stops *)
Theorem C16term_ex_resync_coherent :
  WF rs_node /\ opts_consistent rs_node /\ o_fstrategy (n_opts rs_node) = FS_RESYNC /\
  ClusterProofs.final_state (fsm_run rs_node [orc0] 100) = Some (SYNCHRONIZATION, 1).
Proof. exact ex_resync_coherent. Qed.

(* ---- what remains: LIST with STRICT / CORE under RESYNC. A static fact is needed there: with a declared identifier
   that is not a known instance, LIST is satisfied, STRICT never, and the loop does not end (model-level witness) ---- *)
Theorem C16term_list_strict_needs_known_initial :
  WF (ls_node [1; 2; 4]) /\ conj_timeout (ls_node [1; 2; 4]) /\
  fsm_run (ls_node [1; 2; 4]) [orc0] 100 = Crash OutOfFuel /\
  ClusterProofs.final_state (fsm_run (ls_node [1; 2; 3]) [orc0] 100) = Some (ELECTION, 1).
Proof. exact list_strict_needs_known_initial. Qed.
