(* C06 (node-level part) — which lost processes reach the running-failure handler. The Starter / Stopper are told
   about the lost instances first (JobsInvalidation) and filter, IN PLACE, the processes whose start was pending on a
   lost instance; the Master then hands what is left to the failure handler (FailureJob). In the node model the
   process plane is an oracle: [or_starting orc] = the Starter is busy at this evaluation = it had the lost processes
   pending and drops them. Property-level theorems only; proofs in proofs/NodeFsmProofs.v. *)
From Sup Require Import Node NodeSpec NodeFsmProofs.

(* a busy Starter filtered the lost processes: no evaluation emits FailureJob then, whatever the state and role *)
Theorem C06_starter_busy_no_failure_job : forall n orc now n' o d,
  fsm_next n orc now = Ok (n', o, d) -> or_starting orc = true -> nofj o = true.
Proof. exact fsm_next_starter_busy_no_failure_job. Qed.

(* the Master in a working state (DISTRIBUTION / OPERATION / CONCILIATION), an instance hosting processes is lost at
   this evaluation, the consistence checks decide nothing, the Starter is idle: FailureJob is emitted *)
Theorem C06_starter_idle_failure_job : forall n orc now n1 o1 lost n2 n3 o3 n' o d,
  working (fsm_state n) ->
  check_instances n now = Ok (n1, o1, lost, true, None) -> evaluate_stability n1 = Ok n2 ->
  ms_consistence n2 lost = Ok (n3, o3, None) -> is_master n3 = true -> or_starting orc = false ->
  fsm_next n orc now = Ok (n', o, d) -> In FailureJob o.
Proof. exact fsm_next_starter_idle_failure_job. Qed.
