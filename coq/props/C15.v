(* C15 — Application state and operational status follow their definition.
   Property-level theorems only (statement + exact); proofs are in proofs/AppStatusProofs.v, the model and the
   specification Spec_C15 in model/AppStatus.v. *)
From Sup Require Import ProcStatus AppStatus AppStatusProofs.
Open Scope Z_scope.

(* application state: priority rule, for every list of displayed states *)
Theorem C15_app_state_priority : forall ds, update_state ds = spec_app_state ds.
Proof. exact app_state_priority. Qed.

(* start sequence content: all the processes of a managed application (sequence 0 included), none otherwise *)
Theorem C15_sequenced_content : forall managed ps n,
  zmem n (sequenced_names (update_sequences managed ps)) = managed && zmem n (akeys ps).
Proof. exact sequenced_content. Qed.

(* without formula: major / minor failures exactly as stated (H_sequences_fresh is built in: the sequence is the
   one update_sequences computes from the same process map) *)
Theorem C15_required_status : forall ps managed,
  status_required ps (sequenced_names (update_sequences managed ps)) (update_state (displayed_states ps))
  = spec_required ps managed.
Proof. exact required_status. Qed.

(* reading note: the literal reading of "are so" for the minor failure is not what the code does *)
Theorem C15_required_status_literal_refuted : exists ps managed,
  status_required ps (sequenced_names (update_sequences managed ps)) (update_state (displayed_states ps))
  <> spec_required_literal ps managed.
Proof. exact required_status_literal_refuted. Qed.

(* formulas: evaluate() = evident denotation on the whitelisted fragment *)
Theorem C15_formula_semantics : forall ps e,
  wl e = true -> oracle_wf ps e = true -> fst (eval ps e) = res_of_den (den ps e).
Proof. exact formula_semantics. Qed.

(* formulas: every expression (any construct) without hazardous shape gets the major failure of the text *)
Theorem C15_formula_refines_spec : forall ps seqd e,
  oracle_wf ps e = true -> has_shape hz e = false ->
  exists minor tr,
    update ps seqd (Some (TExprStmt e))
    = (UOk (mk_uobs (spec_app_state (displayed_states ps)) (spec_formula_major ps (TExprStmt e), minor)), tr).
Proof. exact formula_refines_spec. Qed.

(* formulas: totality under H_no_crash_shape = crash_shape_free *)
Theorem C15_formula_total : forall ps seqd e,
  crash_shape_free e = true -> oracle_wf ps e = true ->
  not_crash (fst (eval ps e)) /\
  exists minor tr,
    update ps seqd (Some (TExprStmt e))
    = (UOk (mk_uobs (update_state (displayed_states ps)) (major_of (fst (eval ps e)), minor)), tr)
    /\ (major_of (fst (eval ps e)) = false -> exists b, fst (eval ps e) = FVal (VBool b) /\ b = true).
Proof. exact formula_total. Qed.

(* F14: the unconditional totality is false on the current code *)
Theorem C15_formula_total_refuted :
  (exists e, oracle_wf f14_ps e = true /\
     fst (update f14_ps [1; 2] (Some (TExprStmt e))) = UCrash AttributeError (mk_uobs ARUNNING (false, false)))
  /\ (exists e, oracle_wf f14_ps e = true /\
     fst (update f14_ps [1; 2] (Some (TExprStmt e))) = UCrash IndexError (mk_uobs ARUNNING (false, false)))
  /\ (exists e, oracle_wf f14_ps e = true /\
     fst (update f14_ps [1; 2] (Some (TExprStmt e))) = UCrash ReError (mk_uobs ARUNNING (false, false))).
Proof. exact formula_total_refuted. Qed.

Theorem C15_toplevel_not_expr_refuted :
  fst (update f14_ps [1; 2] (Some TStmtNoValue)) = UCrash AttributeError (mk_uobs ARUNNING (false, false))
  /\ (fst (update [(1, mkPV FATAL None true false 1)] [1] (Some TStmtNone)) = UOk (mk_uobs ASTOPPED (false, true))
      /\ spec_formula_major [(1, mkPV FATAL None true false 1)] TStmtNone = true)
  /\ (fst (update f14_ps [1; 2] (Some (TStmtValue (EStr (Some 1) (RxMatches [1]))))) = UOk (mk_uobs ARUNNING (false, false))
      /\ spec_formula_major f14_ps (TStmtValue (EStr (Some 1) (RxMatches [1]))) = true).
Proof. exact toplevel_not_expr_refuted. Qed.

Theorem C15_extra_args_refuted : exists e,
  oracle_wf f14_ps e = true /\ crash_shape_free e = true /\
  fst (update f14_ps [1; 2] (Some (TExprStmt e))) = UOk (mk_uobs ARUNNING (false, false))
  /\ spec_formula_major f14_ps (TExprStmt e) = true.
Proof. exact extra_args_refuted. Qed.

(* evaluating a formula never executes anything else *)
Theorem C15_no_other_execution : forall a,
  match app_run a with
  | (_, _, trace, other_exec, _) =>
      other_exec = 0 /\ Forall (fun c => (fst c = 0 \/ fst c = 1) /\ snd c <> []) trace
  end.
Proof. exact no_other_execution. Qed.

(* the model satisfies Spec_C15 on every well-formed case outside the known-finding classes *)
Theorem C15_model_refines_spec : forall a,
  sequences_fresh a = true -> app_wf a = true -> in_known_class a = false ->
  case_violation (a, app_run a) = false.
Proof. exact c15_model_refines_spec. Qed.
