(* C15 — Application state and operational status follow their definition.
   Property-level theorems only (statement + exact); proofs are in proofs/AppStatusProofs.v, the model and the
   specification Spec_C15 in model/AppStatus.v. The model follows /repo after the fix commit 67529b2. *)
From Sup Require Import ProcStatus AppStatus AppStatusProofs.
Open Scope Z_scope.

(* application state: priority rule, for every list of displayed states *)
Theorem C15_app_state_priority : forall ds, update_state ds = spec_app_state ds.
Proof. exact app_state_priority. Qed.

(* start sequence content: all the processes of a managed application (sequence 0 included), none otherwise *)
Theorem C15_sequenced_content : forall managed ps n,
  zmem n (sequenced_names (update_sequences managed ps)) = managed && zmem n (akeys ps).
Proof. exact sequenced_content. Qed.

(* without formula: major / minor failures exactly as stated (H_sequences_fresh is built in: the sequence is the
   one update_sequences computes from the same process map) *)
Theorem C15_required_status : forall ps managed,
  status_required ps (sequenced_names (update_sequences managed ps)) (update_state (displayed_states ps))
  = spec_required ps managed.
Proof. exact required_status. Qed.

(* documentation (not a finding): the literal reading of "are so" for the minor failure — a non-required process
   STOPPED while the application is not would be a minor failure — is not what the code does; Spec_C15 keeps the
   docstring reading *)
Theorem C15_required_status_literal_refuted : exists ps managed,
  status_required ps (sequenced_names (update_sequences managed ps)) (update_state (displayed_states ps))
  <> spec_required_literal ps managed.
Proof. exact required_status_literal_refuted. Qed.

(* formulas: evaluate() = evident denotation on the whitelisted fragment *)
Theorem C15_formula_semantics : forall ps e,
  wl e = true -> depth_ok e = true -> oracle_wf ps e = true -> fst (eval ps e) = res_of_den (den ps e).
Proof. exact formula_semantics. Qed.

(* formulas: every expression (any construct) gets the major failure of the text *)
Theorem C15_formula_refines_spec : forall ps seqd e,
  depth_ok e = true -> oracle_wf ps e = true ->
  exists minor tr,
    update ps seqd (Some (TExprStmt e))
    = (UOk (mk_uobs (spec_app_state (displayed_states ps)) (spec_formula_major ps (TExprStmt e), minor)), tr).
Proof. exact formula_refines_spec. Qed.

(* formulas: totality, unconditional for the shapes; H_depth = scope of the model (recursion limit not modelled) *)
Theorem C15_formula_total : forall ps seqd e,
  depth_ok e = true -> oracle_wf ps e = true ->
  not_crash (fst (eval ps e)) /\
  exists minor tr,
    update ps seqd (Some (TExprStmt e))
    = (UOk (mk_uobs (update_state (displayed_states ps)) (major_of (fst (eval ps e)), minor)), tr)
    /\ (major_of (fst (eval ps e)) = false -> exists b, fst (eval ps e) = FVal (VBool b) /\ b = true).
Proof. exact formula_total. Qed.

(* the setter rejects a single statement that is not an expression, and raises nothing but
   ApplicationStatusParseError unless ast.parse raises something it does not catch *)
Theorem C15_setter_rejects_non_expr : forall n t,
  (forall e, t <> TExprStmt e) -> set_formula (PBody n (Some t)) = SRejected.
Proof. exact setter_rejects_non_expr. Qed.

Theorem C15_setter_total : forall p, (forall k, p <> PRaise k) -> (forall n, p <> PBody n None \/ n <> 1) ->
  forall k, set_formula p <> SCrash k.
Proof. exact setter_total. Qed.

(* evaluating a formula never executes anything else *)
Theorem C15_no_other_execution : forall a,
  match app_run a with
  | (_, _, trace, other_exec, _) =>
      other_exec = 0 /\ Forall (fun c => (fst c = 0 \/ fst c = 1) /\ snd c <> []) trace
  end.
Proof. exact no_other_execution. Qed.

(* the model satisfies Spec_C15 on every well-formed case — no known-finding class is excluded *)
Theorem C15_model_refines_spec : forall a,
  sequences_fresh a = true -> app_wf a = true -> case_violation (a, app_run a) = false.
Proof. exact c15_model_refines_spec. Qed.
