(* C03.v — property-level theorems (statements restated, proofs by reference to proofs/SequencerProofs.v).
   Model: model/Sequencer.v (agenda machine of Starter + Stopper). Tie to /repo: harness/drv_sequencer.py. *)
From Sup Require Import Base GenProc GenEnums GenSeq ProcStatus Sequencer SequencerProofs.
From Coq Require Import ZArith List Bool.
Import ListNotations.
Open Scope Z_scope.

(* SEQ-shape (every state): a start group leaves the plan only when no command of the job is current, and it is the group of LEAST sequence number *)
Theorem C03_seq_shape_start_group_is_minimum : forall jid s push outs s' j,
  step_aj_next jid s = Ok ((push, outs), s') -> aget jid (s_jobs s) = Some j -> j_kind j = KStart ->
  forall group, In (AJGroup jid group) push ->
    j_current j = [] /\ exists seq, aget seq (j_planned j) = Some group /\ forall y, In y (akeys (j_planned j)) -> seq <= y.
Proof. exact start_group_is_minimum. Qed.

(* every run of the agenda machine from any state: a StartReq is emitted only while a popped group is processed and only for a process that is stopped (and a StopReq only where the process runs) *)
Theorem C03_start_requests_only_from_groups : forall fuel ag s s' log,
  Forall call_ok ag -> exec_log fuel ag s [] = Ok (s', log) -> emitted_in_order emission_fact log.
Proof. exact requests_only_from_groups. Qed.

(* ABORT / STOP erase the plan of the job (nothing further is requested from it), STOP raises the stop flag, CONTINUE / optional leave the plan unchanged; commands in flight always go on *)
Theorem C03_failure_strategy_abort_stop_continue : forall j r,
  j_kind j = KStart ->
  j_current (process_failure j r) = j_current j /\
  (pr_required r = true -> pr_sfs r = gen_StartingFailureStrategies_ABORT ->
     j_planned (process_failure j r) = [] /\ j_stop_request (process_failure j r) = j_stop_request j) /\
  (pr_required r = true -> pr_sfs r = gen_StartingFailureStrategies_STOP ->
     j_planned (process_failure j r) = [] /\ j_stop_request (process_failure j r) = true) /\
  (pr_required r = false \/ pr_sfs r = gen_StartingFailureStrategies_CONTINUE -> process_failure j r = j).
Proof. exact failure_strategy_abort_stop_continue. Qed.

(* STOP strategy: Starter.after is only reached for a job with nothing planned and nothing in flight *)
Theorem C03_stop_applied_after_in_flight : forall k a jid rest s push outs s',
  step_next_loop k ((a, jid) :: rest) s = Ok ((push, outs), s') ->
  In (CAfter k jid) push ->
  exists j, aget jid (s_jobs s) = Some j /\ j_planned j = [] /\ j_current j = [].
Proof. exact stop_applied_after_in_flight. Qed.

(* ... and it issues exactly one stop_application per raised flag *)
Theorem C03_after_lowers_stop_request : forall jid s push outs s',
  step_after KStart jid s = Ok ((push, outs), s') ->
  (exists j, aget jid (s_jobs s) = Some j /\ j_stop_request j = false /\ push = [] /\ s' = s)
  \/ (exists j j', aget jid (s_jobs s) = Some j /\ j_stop_request j = true /\ push = [CStopApp (j_app j)] /\
                   aget jid (s_jobs s') = Some j' /\ j_stop_request j' = false).
Proof. exact after_lowers_stop_request. Qed.

(* zero_never_auto, process level (any rules, any state): store_application only hands the Starter processes whose start_sequence is > 0, on every path *)
Theorem C03_zero_never_auto_processes : forall ap k names p,
  In (k, names) (filter (fun kv => Z.ltb 0 (fst kv)) (app_start_sequence ap)) -> In p names ->
  0 < k /\ sa_managed ap = true /\ exists pr, In (p, pr) (sa_procs ap) /\ pr_start (sp_rules pr) = k.
Proof. exact zero_never_auto_processes. Qed.

(* zero_never_auto, application level (any rules, any state): the store phase of start_applications leaves the job entry of an application with start_sequence <= 0 untouched *)
Theorem C03_zero_never_auto_applications : forall a apps s ys s',
  (forall ap', In (a, ap') apps -> sa_start ap' <= 0) ->
  mmap (fun kv : Z * sapp => let ap := snd kv in
          if Z.ltb 0 (sa_start ap) && (app_never_started ap || sa_major ap || sa_minor ap)
          then starter_store (fst kv) None else ret tt) apps s = Ok (ys, s') ->
  (forall b ap, In (b, ap) apps -> aget b (s_apps s) = Some ap \/ b <> a) ->
  get_application_job (s_starter s') a = get_application_job (s_starter s) a.
Proof. exact zero_never_auto_applications. Qed.

(* seq_shape_inv (current commands of a job belong to the group popped last, planned keys are beyond its key, no duplicate key, pending groups are parts of it) is preserved by EVERY step_call satisfying the guard = H_no_reentrant_next (a job pops no group while one of its groups is still being processed) and H_no_add_commands (start_process / stop_process only for an application without job) *)
Theorem C03_seq_shape_inv_preserved : forall c rest s gh push outs s',
  seq_shape_inv (c :: rest) s gh -> guard c rest s = true -> step_call c s = Ok ((push, outs), s') ->
  seq_shape_inv (push ++ rest) s' (ghost_step c s push gh).
Proof. exact inv_step. Qed.

(* start_request_order (and its Stopper mirror), partial: for every guarded history from the initial state of any configuration, at every request the command belongs to the group popped last for its job, every current command of the job belongs to that group, every key still planned is greater (Starter) / smaller (Stopper), and the keys popped by one job are strictly monotone *)
Theorem C03_start_request_order_partial : forall fuel cf ops s' gh' log,
  forallb (fun t => op_ok (fst (fst t))) ops = true ->
  run_g fuel (init_st cf) [] ops [] = GOk s' gh' log ->
  seq_shape_inv [] s' gh' /\ Forall entry_ok log.
Proof. exact seq_shape_from_init. Qed.

(* the same from any state satisfying the invariant *)
Theorem C03_seq_shape_history : forall fuel ops s gh acc s' gh' log,
  seq_shape_inv [] s gh -> Forall entry_ok acc -> forallb (fun t => op_ok (fst (fst t))) ops = true ->
  run_g fuel s gh ops acc = GOk s' gh' log ->
  seq_shape_inv [] s' gh' /\ Forall entry_ok log.
Proof. exact seq_shape_history. Qed.

(* application_order, local form (every state): application jobs become current only when no application job is current, and they are those planned under the least (Starter) / greatest (Stopper) application sequence *)
Theorem C03_application_pop_is_extremal : forall k s push outs s',
  step_next_pop k s = Ok ((push, outs), s') ->
  push = [] \/
  exists seq cur,
    cm_current (get_cmdr k s) = [] /\
    aget seq (cm_planned (get_cmdr k s)) = Some cur /\
    (forall y, In y (akeys (cm_planned (get_cmdr k s))) ->
       match k with KStart => seq <= y | KStop => y <= seq end) /\
    push = [CStartJobs k cur; CNext k] /\
    get_cmdr k s' = mkCmdr (adel seq (cm_planned (get_cmdr k s))) cur.
Proof. exact application_pop_is_extremal. Qed.

(* start_request_order + application_order along whole histories, partial: under guard_all = H_no_reentrant_next, H_no_add_commands and H_no_reentrant_delete (a job leaves current_jobs only when it has nothing planned and none of its groups is still being processed; abort only from the top level), from the initial state of any configuration, every request is emitted from the group popped last of a job that is in current_jobs of its sequencer at that moment (jobs become current as application_pop_is_extremal says) *)
Theorem C03_application_order_partial : forall fuel cf ops s' gh' log elog,
  forallb (fun t => op_ok2 (fst (fst t))) ops = true ->
  run_gc fuel (init_st cf) [] ops [] [] = GCOk s' gh' log elog ->
  seq_shape_inv [] s' gh' /\ Forall entry_ok log /\ Forall emitted_by_current_job elog.
Proof. exact ordering_partial. Qed.

(* the same for one agenda run from any configuration satisfying both invariants *)
Theorem C03_guarded_run : forall fuel ag s gh acc eacc s' gh' log elog,
  seq_shape_inv ag s gh -> current_inv2 ag s -> Forall entry_ok acc -> Forall emitted_by_current_job eacc ->
  exec_gc fuel ag s gh acc eacc = GCOk s' gh' log elog ->
  seq_shape_inv [] s' gh' /\ Forall entry_ok log /\ Forall emitted_by_current_job elog.
Proof. exact guarded_run. Qed.

(* current_inv2 is preserved by every step_call satisfying the guards *)
Theorem C03_current_inv_preserved : forall c rest s gh push outs s',
  seq_shape_inv (c :: rest) s gh -> current_inv2 (c :: rest) s ->
  guard c rest s = true -> guard_current2 c rest s = true ->
  step_call c s = Ok ((push, outs), s') ->
  current_inv2 (push ++ rest) s'.
Proof. exact current_step2. Qed.

(* the job-level hypotheses are satisfiable (witness C is a guarded history) *)
Theorem C03_seq_shape_hypotheses_hold :
  exists s gh log, run_g default_fuel (init_st w_cf_c) [] w_ops_c [] = GOk s gh log /\
    map (fun e => match e with GPop jid _ _ seq g => (jid, seq, g) | GEmit jid cid _ _ _ => (jid, -1, [cid]) end) log
      = [(3, 1, [1]); (3, -1, [1]); (3, 2, [2]); (3, -1, [2])].
Proof. exact seq_shape_hypotheses_hold. Qed.

(* the job-level hypotheses do not exclude the no-resource witness *)
Theorem C03_seq_shape_covers_noresource_witness :
  exists s gh log, run_g default_fuel (init_st w_cf_a) [] w_ops_a [] = GOk s gh log.
Proof. exact seq_shape_covers_noresource_witness. Qed.

(* the application-level hypothesis is needed and is what the known finding violates: the no-resource witness leaves guard_all *)
Theorem C03_noresource_witness_leaves_hypotheses :
  run_gc default_fuel (init_st w_cf_a) [] w_ops_a [] [] = GCGuard.
Proof. exact noresource_witness_leaves_hypotheses. Qed.

(* all hypotheses are satisfiable (witness C: timeout of sequence 1, then sequence 2) *)
Theorem C03_ordering_hypotheses_hold :
  exists s gh log elog, run_gc default_fuel (init_st w_cf_c) [] w_ops_c [] [] = GCOk s gh log elog /\
    length log = 4%nat /\ length (filter (fun x => match snd x with OStart _ _ _ => true | _ => false end) elog) = 2%nat.
Proof. exact ordering_hypotheses_hold. Qed.

(* KNOWN FINDING c03-noresource-reentrancy: application_order is false of the faithful model (witness replayed on the real classes by the corpus) *)
Theorem C03_application_order_refuted :
  exists cf ops,
    map outs_of (run default_fuel (init_st cf) ops)
      = [[OForced 1 1 FATAL (-1) None; OStart 3 2 1; OPub 1 1 FATAL true; OStart 2 1 2]]
    /\ cf_app_start cf 1 = 1 /\ cf_app_start cf 2 = 2
    /\ has_vio [V_app_order] (case_vios (cf, ops, run default_fuel (init_st cf) ops)) = true.
Proof. exact application_order_refuted. Qed.

(* KNOWN FINDING c03-timeout-strategy: a required process that times out does not trigger its ABORT strategy *)
Theorem C03_failure_strategy_on_timeout_refuted :
  exists cf ops,
    map outs_of (run default_fuel (init_st cf) ops)
      = [[OStart 2 1 1]; []; [OForced 1 1 FATAL 10 (Some 2); OPub 1 1 FATAL true; OStart 2 1 2]]
    /\ pr_required (cf_rules cf 1 1) = true /\ pr_sfs (cf_rules cf 1 1) = gen_StartingFailureStrategies_ABORT
    /\ has_vio [V_strategy_timeout] (case_vios (cf, ops, run default_fuel (init_st cf) ops)) = true.
Proof. exact failure_strategy_on_timeout_refuted. Qed.

(* KNOWN FINDING reentrant-next-keyerror: restart + no resource raises KeyError in Commander.next *)
Theorem C03_no_internal_failure_refuted :
  exists cf ops, last (run default_fuel (init_st cf) ops) (OCrash OtherError) = OCrash KeyError.
Proof. exact no_internal_failure_refuted. Qed.

(* the hypotheses of the SEQ-shape theorem are satisfiable *)
Theorem C03_start_group_hypotheses_hold :
  exists j push s',
    (let s := match op_calls (OpCall (CStartApp 0 1)) (set_now_oracle 1001 [] (init_st w_cf_c)) with
              | Ok (_, s) => s | Crash _ => init_st w_cf_c end in
     let s1 := match step_call (CStartApp 0 1) s with Ok (_, s1) => s1 | Crash _ => s end in
     aget 3 (s_jobs s1) = Some j /\ j_kind j = KStart /\
     step_aj_next 3 s1 = Ok ((push, []), s') /\ In (AJGroup 3 [1]) push).
Proof. exact start_group_hypotheses_hold. Qed.
