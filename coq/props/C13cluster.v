(* C13, reciprocity clause at cluster level: "During the handshake, a peer that reports the local instance as
   ISOLATED [...] is marked ISOLATED instead of being let in". Property-level theorems only; proofs in
   proofs/ClusterProofs.v (section G). *)
From Sup Require Import Node Cluster ClusterSpec ClusterProofs.

(* (1) the proxy of i serves the request for j; j is up, reachable both ways and regards i as ISOLATED: exactly
   [Ident (Some (j, now)); Auth (ok_origin j) A_NOT_AUTHORIZED now now] (= nack_events j now) is appended to the
   inbox of i; besides that only the request is consumed (node state, counters, channels, other nodes unchanged) *)
Theorem C13_handshake_reports_isolation : forall c i j now cn cj rest,
  aget i (c_nodes c) = Some cn -> cn_up cn = true -> cn_pending cn = j :: rest ->
  not_isolated (cn_node cn) j = true ->
  aget j (c_nodes c) = Some cj -> cn_up cj = true ->
  is_cut c i j = false -> is_cut c j i = false ->
  inst_state (cn_node cj) i = Some ISOLATED ->
  cstep c (AHandshake i now)
  = Ok (set_node c i (mkCnode (cn_node cn) true (cn_cnt cn)
                              (cn_inbox cn ++ [Ident (Some (j, now)); Auth (ok_origin j) A_NOT_AUTHORIZED now now])
                              rest)).
Proof. exact handshake_reports_isolation. Qed.

(* (2) node level: the NOT_AUTHORIZED notice about an instance held in CHECKING since before ts isolates it
   (STOPPED when it is the local instance itself) *)
Theorem C13_auth_not_authorized_step : forall n j s ts now,
  aget j (n_insts n) = Some s -> is_state s = CHECKING -> is_checking_time s < ts ->
  exists n' o, step n (Auth (ok_origin j) A_NOT_AUTHORIZED ts now) = Ok (n', o)
               /\ inst_state n' j = Some (if Z.eqb j (n_me n) then ISTOPPED else ISOLATED).
Proof. exact auth_not_authorized_step. Qed.

(* (2) cluster level: node i processes that notice (ANotify); no link from i is cut, so that no publication of
   this step fails (a failed send would append an INSTANCE_FAILURE notice to the inbox) *)
Theorem C13_not_authorized_isolates : forall c i cn j s ts t0 rest now orcs,
  aget i (c_nodes c) = Some cn -> cn_up cn = true ->
  cn_inbox cn = Auth (ok_origin j) A_NOT_AUTHORIZED ts t0 :: rest ->
  aget j (n_insts (cn_node cn)) = Some s -> is_state s = CHECKING -> is_checking_time s < ts ->
  (forall k, is_cut c i k = false) ->
  exists c' cn', cstep c (ANotify i now orcs) = Ok c' /\ aget i (c_nodes c') = Some cn' /\
    inst_state (cn_node cn') j = Some (if Z.eqb j (n_me (cn_node cn)) then ISTOPPED else ISOLATED) /\
    cn_inbox cn' = rest /\ cn_up cn' = true /\
    (forall k, k <> i -> aget k (c_nodes c') = aget k (c_nodes c)).
Proof. exact not_authorized_isolates. Qed.

(* (3) reciprocity: i holds j in CHECKING since before `now`, its inbox is empty, the request for j is the oldest
   one, j is up, reachable and regards i as ISOLATED: after the handshake and the processing of its two notices
   (Ident, Auth) i regards j as ISOLATED; every other node is untouched *)
Theorem C13_reciprocal_isolation : forall c i j now now1 now2 orcs1 orcs2 cn cj rest s,
  aget i (c_nodes c) = Some cn -> cn_up cn = true -> n_me (cn_node cn) = i ->
  cn_pending cn = j :: rest -> cn_inbox cn = [] ->
  aget j (n_insts (cn_node cn)) = Some s -> is_state s = CHECKING -> is_checking_time s < now ->
  aget j (c_nodes c) = Some cj -> cn_up cj = true ->
  (forall k, is_cut c i k = false) -> is_cut c j i = false ->
  inst_state (cn_node cj) i = Some ISOLATED ->
  exists c' cn',
    crun_state c [AHandshake i now; ANotify i now1 orcs1; ANotify i now2 orcs2] = Ok c' /\
    aget i (c_nodes c') = Some cn' /\ inst_state (cn_node cn') j = Some ISOLATED /\
    cn_inbox cn' = [] /\ cn_up cn' = true /\
    (forall k, k <> i -> aget k (c_nodes c') = aget k (c_nodes c)).
Proof. exact reciprocal_isolation. Qed.

(* (4) no handshake with an instance regarded ISOLATED (or unknown): the request is dropped, nothing is notified *)
Theorem C13_isolated_never_handshaken : forall c i j now cn rest,
  aget i (c_nodes c) = Some cn -> cn_up cn = true -> cn_pending cn = j :: rest ->
  not_isolated (cn_node cn) j = false ->
  cstep c (AHandshake i now)
  = Ok (set_node c i (mkCnode (cn_node cn) true (cn_cnt cn) (cn_inbox cn) rest)).
Proof. exact isolated_never_handshaken. Qed.
