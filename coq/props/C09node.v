(* C09 (node-level part) — restart / shutdown requests: the order reaches the Master; the local Supervisor receives
   at most one restart / shutdown order, only when RESTARTING / SHUTTING_DOWN is left, and the instance is then in
   FINAL for ever; when the Master / a non-Master leaves the ending states.
   Property-level theorems only; proofs in proofs/NodeFsmProofs.v.

   Reading guide.
   * [count_orders outs] : number of SendRestart / SendShutdown tokens in [outs]; [run_orders obss] : their number
     along the observations of a history.
   * [through s n outs] : [s] is the state of [n] or is published in [outs].
   * [Ord n outs n'] : at most one final order in [outs]; none when [n] is in FINAL (and [n'] is in FINAL); if one is
     emitted [n'] is in FINAL; SendRestart (SendShutdown) only in a step that starts in or passes through RESTARTING
     (SHUTTING_DOWN).
   * [ending s] : s = RESTARTING or s = SHUTTING_DOWN.
   * [consistence_exit n now n'] : the consistence check of the ending states decided to leave (local instance not
     RUNNING: OFF; failure strategy RESYNC / SHUTDOWN; the instances seen RUNNING disagree on the Master: ELECTION);
     every such decision is turned into FINAL. *)
From Sup Require Import Node NodeSpec NodeFsmProofs.

(* (1) the request is routed to the Master: exactly one order to it, no local change *)
Theorem C09_restart_routed_to_master : forall n now orcs, is_master n = false -> master n <> 0 ->
  step n (ReqRestart now orcs) = Ok (n, [RestartAll (master n)]) /\
  step n (ReqShutdown now orcs) = Ok (n, [ShutdownAll (master n)]).
Proof. exact restart_routed_to_master. Qed.

Theorem C09_restart_on_master : forall n now orcs, is_master n = true ->
  step n (ReqRestart now orcs) = set_state loop_fuel n (Some RESTARTING) orcs now [] /\
  step n (ReqShutdown now orcs) = set_state loop_fuel n (Some SHUTTING_DOWN) orcs now [].
Proof. exact restart_on_master. Qed.

(* (2) the final order to the local Supervisor *)
Theorem C09_final_order_only_on_leaving_ending : forall n e n' outs, step n e = Ok (n', outs) -> Ord n outs n'.
Proof. exact final_order_only_on_leaving_ending. Qed.

Theorem C09_one_final_order : forall evs n, (run_orders (run n evs) <= 1)%nat.
Proof. exact one_final_order. Qed.

Theorem C09_final_after_order : forall n e n' outs evs, step n e = Ok (n', outs) -> count_orders outs = 1%nat ->
  fsm_state n' = FINAL /\ run_orders (run n' evs) = 0%nat /\
  forall o, In (NOk o) (run n' evs) -> obs_fsm o = scode FINAL.
Proof. exact final_after_order. Qed.

(* (3)/(4) the decision taken in RESTARTING / SHUTTING_DOWN *)
Theorem C09_ending_decision : forall n orc now n' o d, fsm_next n orc now = Ok (n', o, d) -> ending (fsm_state n) ->
  (consistence_exit n now n' /\ d = Some FINAL)
  \/ (is_master n' = true /\ d = Some (if or_stopping orc then fsm_state n else FINAL))
  \/ (is_master n' = false /\ d = Some (ending_slave_next n' (fsm_state n))).
Proof. exact ending_decision. Qed.

Theorem C09_master_leaves_ending_only_when_stopper_idle : forall n orc now n' o,
  fsm_next n orc now = Ok (n', o, Some FINAL) -> ending (fsm_state n) -> is_master n' = true ->
  or_stopping orc = false \/ consistence_exit n now n'.
Proof. exact master_leaves_ending_only_when_stopper_idle. Qed.

Theorem C09_slave_leaves_ending_after_master : forall n orc now n' o d,
  fsm_next n orc now = Ok (n', o, d) -> ending (fsm_state n) -> is_master n' = false ->
  (consistence_exit n now n' /\ d = Some FINAL)
  \/ (master_state n' = Some (fsm_state n) /\ d = Some (fsm_state n))
  \/ (master_state n' <> Some (fsm_state n) /\ d = Some FINAL).
Proof. exact slave_leaves_ending_after_master. Qed.

(* F4: the consistence branch turns into FINAL while the Stopper is still busy *)
Theorem C09_early_final_witness :
  is_master f4_node = true /\ fsm_state f4_node = SHUTTING_DOWN /\ or_stopping orc_stopping = true /\
  (exists n' o, fsm_next f4_node orc_stopping 20 = Ok (n', o, Some FINAL)) /\
  (exists n' outs, step f4_node (LocalTick 3 20 [orc_stopping]) = Ok (n', outs)
                   /\ fsm_state n' = FINAL /\ In SendShutdown outs).
Proof. exact early_final_witness. Qed.
