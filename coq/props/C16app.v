(* C16 (group / process additions and removals) — "Whatever sequence of [...] group/process additions and removals [...]
   and XML-RPC requests an instance receives, handling it never raises an internal error: XML-RPC callers get a result or
   a documented fault".  Property-level theorems only; proofs in proofs/AppMemberProofs.v, model in model/AppMember.v.

   Reading guide.
   * [config]: external publisher present ([c_pub]), Managed applications and program rules (the rules file), instances in
     CHECKED / RUNNING state ([c_active]: PROCESS_REMOVED of the others is ignored), known instances.
   * [op]: [Load i infos] = Context.load_processes (ALL_INFO / PROCESS_ADDED of instance i; payload = application,
     process name, program name); [Removed i a n] = Context.on_process_removed_event ([None] = '*', the group was removed);
     [AppRemove a n] = ApplicationStatus.remove_process called directly; [Resolve a] = ApplicationStatus.resolve_rules;
     [StartApp a] = XML-RPC start_application; [RestartSeq] = XML-RPC restart_sequence.
   * [run cfg st ops]: the observations, one per operation, ended by [OCrash k] at the first exception.
   * [case_spec_violation (cfg, ops, observations)]: the checker written from the text of C16 — the same function is
     evaluated on the observations of the implementation at every run: (S1) no exception except the direct call
     remove_process(n) with n unknown (KeyError, precondition of that method); (S2) after every operation the start / stop
     sequences reference exactly the ProcessStatus objects of application.processes (none stale, none twice, none
     missing among those with a start sequence > 0 of a Managed application / all for stop) and every referenced
     program_name is a key of process_groups.
   * [prog_consistentb ops]: every namespec is announced with one program name along the history (the Supervisor
     configurations agree). Input-only, decidable. Without it the statement is FALSE ([C16app_program_name_drift_refuted]:
     candidate finding "c16-program-name-drift").
   * [reachable cfg F st]: st is reached from the empty context by operations whose payloads follow the table F.
   Histories are of any length (induction over the list of operations). *)
From Sup Require Import AppMember AppMemberProofs.
From Coq Require Import Permutation.

(* ---- the invariant: initially, and preserved by every operation *)
Theorem C16app_inv_init : forall cfg F, inv cfg F init_state.
Proof. exact inv_init. Qed.

Theorem C16app_step_preserves_inv : forall cfg F st o, inv cfg F st -> op_respects F o ->
  (exists st' r pubs, step cfg st o = Ok (st', r, pubs) /\ inv cfg F st' /\ (is_read o = true -> st' = st /\ pubs = []))
  \/ (exists a n ap, o = AppRemove a n /\ aget a (s_apps st) = Some ap /\ aget n (a_procs ap) = None
                     /\ step cfg st o = Crash KeyError).
Proof. exact step_inv. Qed.

Theorem C16app_reachable_inv : forall cfg F st, reachable cfg F st -> inv cfg F st.
Proof. exact reachable_inv. Qed.

(* what the invariant gives to the readers of the sequences, in every reachable state *)
Theorem C16app_reachable_sequences_exact : forall cfg F st a ap, reachable cfg F st -> In (a, ap) (s_apps st) ->
  NoDup (akeys (a_procs ap))
  /\ Permutation (concat (avals (a_stop ap))) (map ent (a_procs ap))
  /\ Permutation (concat (avals (a_start ap))) (if a_managed ap then map ent (a_procs ap) else [])
  /\ (forall n p, In (n, p) (a_procs ap) -> amem (p_prog p) (a_groups ap) = true)
  /\ (forall e, In e (concat (avals (a_start ap)) ++ concat (avals (a_stop ap))) ->
        is_current ap e = true /\ amem (ref_prog ap e) (a_groups ap) = true).
Proof. exact reachable_sequences_exact. Qed.

(* ---- no internal error *)
(* start_application / restart_sequence / resolve_rules: a result or a documented fault, nothing changed *)
Theorem C16app_reads_total : forall cfg F st o, reachable cfg F st -> is_read o = true ->
  exists r, step cfg st o = Ok (st, r, []).
Proof. exact reachable_reads_total. Qed.

(* ALL_INFO / PROCESS_ADDED / PROCESS_REMOVED (also unknown process, unknown application, double removal, removal of
   the last process, removal from an instance that is not active): never an exception *)
Theorem C16app_events_total : forall cfg F st o, reachable cfg F st -> op_respects F o ->
  (forall a n, o <> AppRemove a n) -> exists st' r pubs, step cfg st o = Ok (st', r, pubs) /\ reachable cfg F st'.
Proof. exact reachable_events_total. Qed.

(* the direct call: KeyError exactly when the name is not in application.processes *)
Theorem C16app_direct_remove : forall cfg F st a n, reachable cfg F st ->
  (exists st', step cfg st (AppRemove a n) = Ok (st', (match aget a (s_apps st) with Some _ => RNone | None => RNoApp end), []))
  \/ (exists ap, aget a (s_apps st) = Some ap /\ aget n (a_procs ap) = None
                 /\ step cfg st (AppRemove a n) = Crash KeyError).
Proof. exact reachable_direct_remove. Qed.

(* whole histories *)
Theorem C16app_no_internal_error : forall cfg ops k, prog_consistentb ops = true ->
  In (OCrash k) (run cfg init_state ops) -> k = KeyError /\ exists a n, In (AppRemove a n) ops.
Proof. exact no_internal_error. Qed.

Theorem C16app_no_internal_error_context : forall cfg ops k, prog_consistentb ops = true -> context_paths_only ops ->
  ~ In (OCrash k) (run cfg init_state ops).
Proof. exact no_internal_error_context. Qed.

(* the model satisfies the specification checker that is run on the implementation *)
Theorem C16app_model_satisfies_spec : forall cfg ops, prog_consistentb ops = true ->
  case_spec_violation (cfg, ops, run cfg init_state ops) = false.
Proof. exact model_satisfies_spec. Qed.

(* the hypothesis, as a table of program names respected by every payload *)
Theorem C16app_prog_consistent_respects : forall ops, prog_consistentb ops = true ->
  Forall (op_respects (prog_table ops)) ops.
Proof. exact prog_consistent_respects. Qed.

Theorem C16app_respects_prog_consistent : forall F ops,
  (forall info, In info (all_infos ops) -> info_respects F info) -> prog_consistentb ops = true.
Proof. exact respects_prog_consistent. Qed.

(* ---- with or without an external publisher: same states, same answers, same exceptions *)
Theorem C16app_publisher_irrelevant : forall b cfg ops st,
  map obs_nopub (run (set_pub b cfg) st ops) = map obs_nopub (run cfg st ops).
Proof. exact publisher_irrelevant. Qed.

(* ---- the hypothesis is needed (candidate finding c16-program-name-drift) *)
Theorem C16app_program_name_drift_refuted :
  context_paths_only drift_ops
  /\ case_spec_violation (drift_cfg, drift_ops, run drift_cfg init_state drift_ops) = true
  /\ In (OCrash KeyError) (run drift_cfg init_state drift_ops).
Proof. exact program_name_drift_refuted. Qed.

Theorem C16app_program_name_drift_removal_refuted :
  In (OCrash KeyError) (run drift_cfg init_state [Load 1 [(0, 0, 0)]; Load 2 [(0, 0, 1)]; Removed 1 0 (Some 0);
                                                  Removed 2 0 (Some 0)])
  /\ In (OCrash ValueError) (run drift_cfg init_state [Load 1 [(0, 0, 0); (0, 1, 1)]; Load 2 [(0, 0, 1)];
                                                     Removed 1 0 (Some 0); Removed 2 0 (Some 0)]).
Proof. exact program_name_drift_removal_refuted. Qed.

(* ---- the statements are not vacuous *)
Theorem C16app_ex_hypotheses_satisfiable :
  prog_consistentb ex_ops = true /\ context_paths_only ex_ops
  /\ map (fun o => match o with OOk r _ _ => Some r | _ => None end) (run ex_cfg init_state ex_ops)
     = [Some RNone; Some RNone; Some RNone; Some RDone; Some RDone; Some RNone; Some RNone; Some RNone; Some RNone;
        Some RDone; Some RNone; Some RNone; Some RBadName]
  /\ case_spec_violation (ex_cfg, ex_ops, run ex_cfg init_state ex_ops) = false.
Proof. exact ex_hypotheses_satisfiable. Qed.

Theorem C16app_ex_reachable : exists st, reachable ex_cfg (prog_table ex_ops) st /\ s_apps st <> [] /\ s_next st = 4.
Proof. exact ex_reachable. Qed.

Theorem C16app_ex_spec_rejects :
  let ok := (0, true, [(0, 0, [1])], [(0, [(0, true)])], [(1, [(0, true, 0)])], [(1, [(0, true, 0)])]) : oapp in
  let stale := (0, true, [(0, 0, [1])], [(0, [(0, true)])], [(1, [(0, true, 0); (1, false, 1)])], [(1, [(0, true, 0)])]) : oapp in
  let missing := (0, true, [(0, 0, [1])], [(0, [(0, true)])], [], [(1, [(0, true, 0)])]) : oapp in
  let nogroup := (0, true, [(0, 0, [1])], [], [(1, [(0, true, 0)])], [(1, [(0, true, 0)])]) : oapp in
  oapp_ok ex_cfg ok = true /\ oapp_ok ex_cfg stale = false /\ oapp_ok ex_cfg missing = false
  /\ oapp_ok ex_cfg nogroup = false.
Proof. exact ex_spec_rejects. Qed.
