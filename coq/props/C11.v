(* C11 — ProcessStatus synthesis: property-level theorems (proofs in proofs/ProcStatusProofs.v). *)
From Sup Require Import ProcStatus ProcStatusProofs.

(* Every history: as long as the operations are well-formed, each observation of the implementation
   model is accepted by the abstract specification. *)
Theorem C11_refines_spec :
  forall ops, spec_violated spec_init ops (run proc_init ops) = false.
Proof. exact refines_spec. Qed.

(* A well-formed history never raises, and yields one observation per operation. *)
Theorem C11_no_crash_on_wf_history :
  forall ops, wf_history spec_init ops = true ->
    (forall o, In o (run proc_init ops) -> exists x, o = OOk x)
    /\ length (run proc_init ops) = length ops.
Proof. exact wf_history_no_crash. Qed.

(* The conflict state is the most advanced of the running states: RUNNING > BACKOFF > STARTING > STOPPING. *)
Theorem C11_running_state_is_most_advanced :
  forall states, running_state states = most_advanced states.
Proof. exact running_state_spec. Qed.

(* Losing instance j does not touch the information of any other instance. *)
Theorem C11_loss_frame :
  forall p j now p', invalidate p j now = Ok p' ->
    forall i, i <> j -> aget i (p_infos p') = aget i (p_infos p).
Proof. exact loss_frame. Qed.

(* Losing a running instance j marks it FATAL and removes it from the running identifiers. *)
Theorem C11_loss_makes_fatal :
  forall p j now p', zmem j (p_running p) = true -> invalidate p j now = Ok p' ->
    (exists inf, aget j (p_infos p') = Some inf /\ i_state inf = FATAL) /\ zmem j (p_running p') = false.
Proof. exact loss_makes_fatal. Qed.

(* Forcing a state changes neither the per-instance information, nor the running set, nor the synthesized state. *)
Theorem C11_force_frame :
  forall p i st et, let p' := fst (force_state p i st et) in
    p_infos p' = p_infos p /\ p_running p' = p_running p /\ p_state p' = p_state p.
Proof. exact force_frame. Qed.

(* A forced state is dismissed exactly when it is older than the last event known for that instance. *)
Theorem C11_force_dismissed_iff :
  forall p i st et,
    snd (force_state p i st et) = false <-> exists inf, aget i (p_infos p) = Some inf /\ et < i_event_time inf.
Proof. exact force_dismissed_iff. Qed.

(* On every state related to a spec state (in particular every reachable one, see reachable_R):
   conflicting iff at least two instances are listed as running. *)
Theorem C11_conflict_iff :
  forall p sp, R p sp -> (conflicting p = true <-> (2 <= length (spec_running sp))%nat).
Proof. exact conflict_iff. Qed.

(* The reflected supervisor tuples RUNNING_STATES / STOPPED_STATES mean what the property text says. *)
Theorem C11_tables :
  (forall s, is_running s = is_running_like s) /\ (forall s, is_stopped s = is_stopped_like s).
Proof. exact tables_spec. Qed.
