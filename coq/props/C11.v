From Sup Require Import ProcStatus.
Theorem placeholder : True. Proof. exact I. Qed.
