From Sup Require Import Node Cluster ClusterSpec.
Theorem placeholder08 : True. Proof. exact I. Qed.
