(* C08 (and the cluster-level core of C01): property-level theorems only. Proofs in proofs/ClusterProofs.v. *)
From Sup Require Import Node Cluster ClusterSpec ClusterProofs.

(* C01 — agreement at quiescence. A non-empty set of instances such that every member holds the exact current
   state-and-modes of every member (its own entry included), sees exactly the members RUNNING, passed
   _check_consistence at its last evaluation (check_master = true) and satisfies SM-local (a non-empty Master is
   seen RUNNING locally): all members report the same, non-empty Master M, M is a member, every member sees M
   RUNNING, and the member M regards itself as the Master.
   No NoDup / key well-formedness hypothesis is needed. *)
Theorem C01_quiescent_agreement : forall (nodes : list node),
  nodes <> [] ->
  (forall ni nj, In ni nodes -> In nj nodes -> view_exact ni nj) ->
  (forall n, In n nodes -> sees_exactly n (map n_me nodes)) ->
  (forall n, In n nodes -> master_consistent n) ->
  (forall n, In n nodes -> sm_local n) ->
  exists M, In M (map n_me nodes) /\ M <> 0 /\
    (forall n, In n nodes -> master n = M /\ sees_running n M = true) /\
    (exists nM, In nM nodes /\ n_me nM = M /\ master nM = M /\ is_master nM = true).
Proof. exact quiescent_agreement. Qed.

(* C08 — every decision one evaluation of the state machine can return belongs to `decisions (current state)` ... *)
Theorem C08_decisions_sound : forall n orc now n' o d,
  fsm_next n orc now = Ok (n', o, Some d) -> In d (decisions (fsm_state n)).
Proof. exact fsm_next_decisions. Qed.

(* ... more precisely it is a local decision, or the copy of the Master's state by a non-Master instance *)
Theorem C08_decisions_split : forall n orc now n' o d,
  fsm_next n orc now = Ok (n', o, Some d) ->
  In d (decisions_local (fsm_state n))
  \/ (follows_master (fsm_state n) = true /\ is_master n' = false /\ master_state n' = Some d).
Proof. exact fsm_next_decisions_split. Qed.

(* C08 — the catalogue: the decisions that the transition table of /repo refuses (each one is a parking spot) *)
Theorem C08_decisions_catalogue :
  refused_pairs =
    [ (DISTRIBUTION, SYNCHRONIZATION); (DISTRIBUTION, CONCILIATION); (DISTRIBUTION, FINAL);
      (OPERATION, DISTRIBUTION); (OPERATION, FINAL);
      (CONCILIATION, DISTRIBUTION); (CONCILIATION, FINAL) ].
Proof. exact refused_pairs_exact. Qed.

(* among them the only one an instance decides by itself (not by copying its Master): RESYNC in DISTRIBUTION *)
Theorem C08_decisions_catalogue_local : refused_pairs_local = [ (DISTRIBUTION, SYNCHRONIZATION) ].
Proof. exact refused_pairs_local_exact. Qed.

Theorem C08_catalogue_meaning : forall s d,
  In (s, d) refused_pairs <-> (In d (decisions s) /\ refused s d = true).
Proof. exact refused_pairs_spec. Qed.

(* every pair of the catalogue is produced by a concrete node, and the real loop then keeps the state *)
Theorem C08_catalogue_realised : forall s d, In (s, d) refused_pairs ->
  exists n n' o, fsm_state n = s /\ fsm_next n rw_orc 100 = Ok (n', o, Some d)
                 /\ fsm_run n [rw_orc] 100 = Ok (n', o) /\ fsm_state n' = s.
Proof. exact refused_pairs_realised. Qed.

Theorem C08_refused_keeps_state : forall fuel n d orcs now acc,
  refused (fsm_state n) d = true -> set_state fuel n (Some d) orcs now acc = Ok (n, acc).
Proof. exact refused_keeps_state. Qed.

(* C08 regression 1 — the Master is lost (or several are declared) while in CONCILIATION: the evaluation decides
   ELECTION, the table accepts it, and FiniteStateMachine.next ends in ELECTION. *)
Theorem C08_conciliation_master_lost_not_parked : forall n orcs now,
  own_wf n -> fsm_state n = CONCILIATION -> local_running n = true -> quiet n ->
  no_strategy (n_opts n) = true -> check_master n = Ok false ->
  (exists n1 o1, fsm_next n (fst (next_orcs orcs)) now = Ok (n1, o1, Some ELECTION) /\ presf n n1)
  /\ refused CONCILIATION ELECTION = false
  /\ (forall n' outs, fsm_run n orcs now = Ok (n', outs) -> fsm_state n' = ELECTION).
Proof. exact conciliation_master_lost_not_parked. Qed.

(* C08 regression 2 — a non-Master instance in ELECTION whose context is stable and consistent leaves ELECTION
   when its Master is viewed in DISTRIBUTION, OPERATION or CONCILIATION. *)
Theorem C08_election_slave_not_parked : forall n orcs now,
  own_wf n -> fsm_state n = ELECTION -> local_running n = true -> quiet n -> no_strategy (n_opts n) = true ->
  stable_after n = true -> check_master n = Ok true -> is_master n = false -> master_beyond n = true ->
  (exists n1 o1, fsm_next n (fst (next_orcs orcs)) now = Ok (n1, o1, Some DISTRIBUTION) /\ presf n n1)
  /\ refused ELECTION DISTRIBUTION = false
  /\ (forall n' outs, fsm_run n orcs now = Ok (n', outs) ->
        In (fsm_state n') [DISTRIBUTION; OPERATION; CONCILIATION]).
Proof. exact election_slave_not_parked. Qed.

Theorem C08_off_progress : forall n orc now,
  fsm_state n = OFF -> local_running n = true -> quiet n -> views_keyed n ->
  exists n' o, fsm_next n orc now = Ok (n', o, Some SYNCHRONIZATION).
Proof. exact off_progress. Qed.

Theorem C08_sync_progress_timeout : forall n orc now,
  fsm_state n = SYNCHRONIZATION -> local_running n = true -> quiet n -> views_keyed n ->
  o_timeout (n_opts n) = true -> now - n_start_date n >= o_synchro_timeout (n_opts n) ->
  exists n' o, fsm_next n orc now = Ok (n', o, Some ELECTION).
Proof. exact sync_progress_timeout. Qed.

Theorem C08_election_progress_master : forall n orc now,
  own_wf n -> fsm_state n = ELECTION -> local_running n = true -> quiet n -> no_strategy (n_opts n) = true ->
  stable_after n = true -> check_master n = Ok true -> is_master n = true ->
  exists n' o, fsm_next n orc now = Ok (n', o, Some DISTRIBUTION) /\ presf n n'.
Proof. exact election_progress_master. Qed.

Theorem C08_distribution_progress_master : forall n orc now,
  own_wf n -> fsm_state n = DISTRIBUTION -> local_running n = true -> quiet n ->
  no_strategy (n_opts n) = true -> check_master n = Ok true -> is_master n = true -> or_starting orc = false ->
  exists n' o, fsm_next n orc now = Ok (n', o, Some OPERATION) /\ presf n n'.
Proof. exact distribution_progress_master. Qed.

Theorem C08_slave_follows_master_state : forall n orc now,
  own_wf n -> follows_master (fsm_state n) = true -> local_running n = true -> quiet n ->
  no_strategy (n_opts n) = true -> check_master n = Ok true -> is_master n = false ->
  exists n' o, fsm_next n orc now = Ok (n', o, master_state n) /\ presf n n'.
Proof. exact slave_follows_master_state. Qed.

(* total form of regression 2: under the same hypotheses FiniteStateMachine.next succeeds (no exception, loop bounded) *)
Theorem C08_election_slave_total : forall n orcs now,
  own_wf n -> fsm_state n = ELECTION -> local_running n = true -> quiet n -> no_strategy (n_opts n) = true ->
  stable_after n = true -> check_master n = Ok true -> is_master n = false -> master_beyond n = true ->
  exists n' outs, fsm_run n orcs now = Ok (n', outs) /\ In (fsm_state n') [DISTRIBUTION; OPERATION; CONCILIATION].
Proof. exact election_slave_total. Qed.

(* the loop of FiniteStateMachine.set_state does NOT always terminate under SupvisorsOptions.check_options alone
   (TIMEOUT -> CONTINUE), even with a constant oracle: STRICT + CORE + RESYNC, declared instances all RUNNING and
   stable, core instances not all RUNNING *)
Theorem C08_set_state_terminates_refuted :
  exists n orcs now,
    (o_timeout (n_opts n) = true -> o_fstrategy (n_opts n) = FS_CONTINUE) /\
    own_wf n /\ views_keyed n /\ quiet n /\ local_running n = true /\
    (forall a b, In a orcs -> In b orcs -> a = b) /\
    fsm_run n orcs now = Crash OutOfFuel.
Proof. exact set_state_terminates_refuted. Qed.

(* ... and it is a genuine cycle SYNCHRONIZATION <-> ELECTION: no amount of fuel suffices *)
Theorem C08_set_state_livelock : forall fuel acc,
  set_state fuel lv_S (Some ELECTION) [px_orc] 100 acc = Crash OutOfFuel.
Proof. exact set_state_livelock. Qed.
