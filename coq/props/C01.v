From Sup Require Import Node NodeSpec.
Theorem placeholder01 : True. Proof. exact I. Qed.
