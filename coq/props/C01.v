(* C01 (node-level part) — no instance starts, stops or conciliates anything automatically unless it is the Master;
   the Master selection rule. Property-level theorems only; proofs in proofs/NodeFsmProofs.v.

   Reading guide.
   * [c01_tokens me cur outs] : every automatic token (AutoStart, Conciliate, FailureJob, AutoStopAll) of [outs] is
     emitted while the last published Master (initially [cur]) is [me].
   * [sel_declared n ms] : the Masters declared by the instances seen RUNNING ([ms]) that are known identifiers;
     [sel_pool] : these if any, else all instances seen RUNNING; [sel_cands] : the core_identifiers members of the
     pool if any, else the pool; [is_min_nick n cands M] : M is in cands and has the lowest nick identifier. *)
From Sup Require Import Node NodeSpec NodeFsmProofs.

Theorem C01_master_only_tokens : forall n e n' outs, step n e = Ok (n', outs) ->
  c01_tokens (n_me n) (master n) outs = true.
Proof. exact master_only_tokens. Qed.

Theorem C01_run_master_only : forall n evs, nspec_ok fl_c01 (n, evs, run n evs) = true.
Proof. exact run_master_only. Qed.

Theorem C01_select_master_rule : forall n ms n' o, master_identifiers n = Ok ms -> select_master n = Ok (n', o) ->
  exists M, is_min_nick n (sel_cands n ms) M /\ In M (sel_pool n ms) /\ set_master n M = (n', o) /\ master n' = M.
Proof. exact select_master_rule. Qed.

(* a running Master that is the only one recognised is kept, whatever the core list / the other running instances *)
Theorem C01_master_kept : forall n ms M n' o, master_identifiers n = Ok ms -> sel_declared n ms = [M] ->
  select_master n = Ok (n', o) -> master n' = M.
Proof. exact master_kept. Qed.

Theorem C01_check_master_iff : forall n, check_master n = Ok true <->
  exists rv, running_views n (n_views n) = Ok rv /\
    (rv = [] \/ exists M, M <> 0 /\ forall js, In js rv -> sm_master (snd js) = M).
Proof. exact check_master_iff. Qed.
