(* C01 (node-level part) — no instance starts, stops or conciliates anything automatically unless it is the Master;
   the Master selection rule. Property-level theorems only; proofs in proofs/NodeFsmProofs.v.

   Reading guide.
   * [c01_tokens me cur outs] : every automatic token (AutoStart, Conciliate, FailureJob, AutoStopAll) of [outs] is
     emitted while the last published Master (initially [cur]) is [me].
   * [sel_declared n ms] : the Masters declared by the instances seen RUNNING ([ms]) that are known identifiers;
     [sel_pool] : these if any, else all instances seen RUNNING; [sel_cands] : the core_identifiers members of the
     pool if any, else the pool; [is_min_nick n cands M] : M is in cands and has the lowest nick identifier. *)
From Sup Require Import Node NodeSpec NodeFsmProofs.

Theorem C01_master_only_tokens : forall n e n' outs, step n e = Ok (n', outs) ->
  c01_tokens (n_me n) (master n) outs = true.
Proof. exact master_only_tokens. Qed.

Theorem C01_run_master_only : forall n evs, nspec_ok fl_c01 (n, evs, run n evs) = true.
Proof. exact run_master_only. Qed.

Theorem C01_select_master_rule : forall n ms n' o, master_identifiers n = Ok ms -> select_master n = Ok (n', o) ->
  exists M, is_min_nick n (sel_cands n ms) M /\ In M (sel_pool n ms) /\ set_master n M = (n', o) /\ master n' = M.
Proof. exact select_master_rule. Qed.

(* a running Master that is the only one recognised is kept, whatever the core list / the other running instances *)
Theorem C01_master_kept : forall n ms M n' o, master_identifiers n = Ok ms -> sel_declared n ms = [M] ->
  select_master n = Ok (n', o) -> master n' = M.
Proof. exact master_kept. Qed.

Theorem C01_check_master_iff : forall n, check_master n = Ok true <->
  exists rv, running_views n (n_views n) = Ok rv /\
    (rv = [] \/ exists M, M <> 0 /\ forall js, In js rv -> sm_master (snd js) = M).
Proof. exact check_master_iff. Qed.

(* C01 (cluster level, logical core) — among instances that hold exact views of one another, see exactly one another
   RUNNING, whose last evaluation found the Master consistent and whose Master is seen RUNNING locally (SM-local, proved
   invariant under the hypotheses of C02_run_c02_partial): everybody reports the same Master, it is one of them, all see
   it RUNNING and it regards itself as the Master. Proof in proofs/ClusterProofs.v. *)
From Sup Require Import Cluster ClusterSpec ClusterProofs.

Theorem C01_quiescent_agreement_cluster : forall (nodes : list node),
  nodes <> [] ->
  (forall ni nj, In ni nodes -> In nj nodes -> view_exact ni nj) ->
  (forall n, In n nodes -> sees_exactly n (map n_me nodes)) ->
  (forall n, In n nodes -> master_consistent n) ->
  (forall n, In n nodes -> sm_local n) ->
  exists M, In M (map n_me nodes) /\ M <> 0 /\
    (forall n, In n nodes -> master n = M /\ sees_running n M = true) /\
    (exists nM, In nM nodes /\ n_me nM = M /\ master nM = M /\ is_master nM = true).
Proof. exact quiescent_agreement. Qed.
