From Sup Require Import Node NodeSpec.
Theorem placeholder13 : True. Proof. exact I. Qed.
