(* C13 (node-level part) — isolation is permanent and airtight; handshake fences: property-level theorems
   (proofs in proofs/NodeInstProofs.v). WFI n: the instance table has no duplicate key and the local instance is
   not marked ISOLATED (true of every start-up node, preserved by every event). *)
From Sup Require Import Node NodeSpec NodeInstProofs.

(* An instance ISOLATED before an event is ISOLATED after it, with unchanged counters, and no handshake is
   requested with it — whatever the event (tick, state publication, handshake result, process information,
   failure notice claiming to come from it, local tick, request). *)
Theorem C13_isolated_frozen_step : forall n e n' outs, WFI n -> step n e = Ok (n', outs) ->
  c13_isolated_frozen (init_ist n) (init_ist n') outs = true.
Proof. exact isolated_frozen. Qed.

(* The AUTHORIZATION result is taken into account only in CHECKING with a newer timestamp: AUTHORIZED -> CHECKED,
   NOT_AUTHORIZED / INCONSISTENT -> ISOLATED (STOPPED for the local instance itself), UNKNOWN -> STOPPED;
   otherwise the state of that instance is unchanged by the event. *)
Theorem C13_auth_rules : forall n e n' outs, WFI n -> step n e = Ok (n', outs) ->
  c13_auth (n_me n) e (init_ist n) (init_ist n') = true.
Proof. exact auth_rules. Qed.

(* Every history is accepted by the C13 checker. *)
Theorem C13_every_history : forall n evs, WFI n -> nspec_ok fl_c13 (n, evs, run n evs) = true.
Proof. exact run_c13. Qed.

(* ISOLATED stays until the local Supervisor restarts (no event of the model leaves it). *)
Theorem C13_isolated_absorbing : forall n evs j, WFI n -> inst_state n j = Some ISOLATED ->
  forall n', run_state n evs = Ok n' -> inst_state n' j = Some ISOLATED.
Proof. exact isolated_absorbing. Qed.

Theorem C13_wfi_invariant : forall n e n' outs, WFI n -> step n e = Ok (n', outs) -> WFI n'.
Proof. exact step_WFI. Qed.

(* Non-vacuity: a NOT_AUTHORIZED handshake isolates peer 3; later ticks, publications, handshake results, failure
   notices from it and local ticks leave its row (state, remote counter, local tag, checking time) unchanged,
   and the only handshakes ever requested are the two initial ones. *)
Theorem C13_example_isolated :
  map (fun o => match o with NOk x => ist_entry 3 (obs_ist x) | NCrash _ => None end)
      (skipn 4 (run (ex_node false) ex_iso_hist))
  = repeat (Some (5, 4, 2, 1011)) 9.
Proof. exact ex_isolated. Qed.

Theorem C13_example_handshakes :
  checks_of (run (ex_node false) ex_iso_hist) = [CheckInstance 1; CheckInstance 3].
Proof. exact ex_isolated_handshakes. Qed.
