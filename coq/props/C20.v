(* C20 — Statistics histories stay bounded, aligned and sane.
   Property-level theorems about model/Stats.v (tied to supvisors/statscompiler.py by the three suites of
   harness/drv_stats.py on every run).  Structural statements hold for ALL sample streams (induction over
   fold_left push) and are closed under the global context apart from Coq's primitive float/int declarations;
   the numeric ones (cpu_in_range*, io_rates_sane, io_rate_sane) come
   from proofs/StatsFloat.v (Flocq) and depend on the axioms printed by the check. *)
From Coq Require Import PrimFloat.
From Sup Require Import Stats StatsProofs StatsFloat.

(* ---------------------------------------------------------------- bounded *)
(* one HostStatisticsInstance, any stream, any period: every list has at most `depth` points (1 <= depth) *)
Theorem bounded : forall period depth ss, 1 <= depth ->
  bounded_hshape depth (hshape_of (host_run (hinst_init period depth) ss)) = true.
Proof. exact host_bounded. Qed.

(* HostStatisticsCompiler: every identifier (also never seen before), every distinct period *)
Theorem bounded_aligned_all_hosts : forall periods depth ops, 1 <= depth ->
  hcomp_shapes_ok depth (hcomp_run (hcomp_init periods depth) ops) = true.
Proof. exact hcomp_bounded_aligned. Qed.

(* ProcStatisticsCompiler: every namespec, identifier and period: bounded and times/cpu/mem aligned *)
Theorem bounded_aligned_all_processes : forall periods depth ops, 0 <= depth ->
  pshapes_ok depth (pcshape_of (pcomp_run (pcomp_init periods depth) ops)) = true.
Proof. exact pcomp_bounded_aligned. Qed.

(* the depth hypotheses cannot be dropped (stats_histo is in [10;1500] by the options) *)
Theorem bounded_needs_positive_depth :
  exists period ss, bounded_hshape 0 (hshape_of (host_run (hinst_init period 0) ss)) = false.
Proof. exact bounded_depth0_refuted. Qed.

Theorem process_histories_need_nonnegative_depth :
  exists period ops, pshapes_ok 0 (pcshape_of (pcomp_run (pcomp_init [period] (-1)) ops)) = false.
Proof. exact proc_negative_depth_refuted. Qed.

(* ---------------------------------------------------------------- aligned *)
(* per interface / device / partition: uptimes and every value list have the same length, through
   appearance, disappearance and counter wrap — no hypothesis at all *)
Theorem aligned : forall period depth ss,
  aligned_timed (hshape_of (host_run (hinst_init period depth) ss)) = true.
Proof. exact host_aligned_timed. Qed.

(* times / mem / every cpu list, under H_cpu_count_not_shrinking *)
Theorem aligned_host_core : forall period depth ss, cpu_never_shrinks ss ->
  aligned_core (hshape_of (host_run (hinst_init period depth) ss)) = true.
Proof. exact host_aligned_core. Qed.

(* F24: without the hypothesis the push raises IndexError and `times` stays one point longer *)
Theorem aligned_host_core_refuted :
  exists period depth ss,
    aligned_core (hshape_of (host_run (hinst_init period depth) ss)) = false
    /\ snd (host_push (host_run (hinst_init period depth) (firstn 2 ss)) (nth 2 ss (hs 0 [] []))) = HCrash IndexError.
Proof. exact aligned_core_refuted. Qed.

Example aligned_host_core_hypothesis_satisfiable :
  cpu_never_shrinks (firstn 2 f24_stream)
  /\ hshape_of (host_run (hinst_init 5 10) (firstn 2 f24_stream)) = (1, 1, [1; 1], [], [], []).
Proof. exact cpu_never_shrinks_example. Qed.

(* ---------------------------------------------------------------- period_gate *)
(* a point is produced only if now - ref.now >= period (as floats), and then the sample becomes the reference *)
Theorem period_gate : forall h s h' p, host_push h s = (h', HPoint p) ->
  exists r, h_ref h = Some r /\ gate (h_period h) (s_now s) (s_now r) = true /\ h_ref h' = Some s.
Proof. exact host_period_gate. Qed.

(* otherwise the reference does not move (so it is always the sample of the previous point, or the first one) *)
Theorem period_gate_reference_kept : forall h s h' o r, host_push h s = (h', o) -> h_ref h = Some r ->
  (forall p, o <> HPoint p) -> h_ref h' = Some r.
Proof. exact host_no_point_ref. Qed.

Theorem period_gate_nothing_changes : forall h s h' r, host_push h s = (h', HNone) -> h_ref h = Some r -> h' = h.
Proof. exact host_none_unchanged. Qed.

Theorem period_gate_process : forall p s p' c m t, proc_push p s = (p', PPoint c m t) ->
  exists r, p_ref p = Some r /\ gate (p_period p) (ps_now s) (ps_now r) = true /\ p_ref p' = Some s.
Proof. exact proc_period_gate. Qed.

(* ---------------------------------------------------------------- io_rates_sane *)
(* every rate of every point produced by an instance whose period is >= 1: finite and >= 0 *)
Theorem io_rates_sane : forall h s h' upt cpu mem net disk usage,
  f_le f1 (h_period h) = true ->
  host_push h s = (h', HPoint (upt, cpu, mem, net, disk, usage)) ->
  rates_sane net = true /\ rates_sane disk = true.
Proof. exact host_point_rates_sane. Qed.

(* the expression itself, for any non-negative Python int and any duration >= 1 (including +inf) *)
Theorem io_rate_sane : forall n d v,
  0 <= n -> f_le f1 d = true -> io_rate n d = Ok v -> rate_sane v = true.
Proof. exact StatsFloat.io_rates_sane. Qed.

(* a wrapped counter yields no point for that key, and its history is dropped *)
Theorem wrapped_counter_no_point : forall h s h' upt cpu mem net disk usage r k,
  host_push h s = (h', HPoint (upt, cpu, mem, net, disk, usage)) -> h_ref h = Some r ->
  wrapped (s_net s) (s_net r) k = true -> NoDup (akeys (s_net s)) ->
  ~ In k (akeys net) /\ ~ In k (akeys (h_net h')).
Proof. exact host_wrapped_dropped. Qed.

(* ---------------------------------------------------------------- cpu_in_range *)
(* PROVED for the model (= /repo since the fix of F25, expression 100.0 * (work / total)):
   finite, non-negative, non-decreasing counters give a value in [0,100], per core, for every sample pair ... *)
Theorem cpu_in_range : forall latest ref,
  cpu_values_ok false (cpu_statistics latest ref) latest ref = true.
Proof. exact cpu_statistics_in_range. Qed.

Theorem cpu_in_range_one : forall latest ref,
  counters_ok latest ref = true -> Stats.cpu_in_range (cpu_one latest ref) = true.
Proof. exact cpu_one_in_range. Qed.

(* ... hence for every CPU value of every point an instance produces *)
Theorem cpu_in_range_points : forall h s h' r upt cpu mem net disk usage,
  h_ref h = Some r ->
  host_push h s = (h', HPoint (upt, cpu, mem, net, disk, usage)) ->
  cpu_values_ok false cpu (s_cpu s) (s_cpu r) = true.
Proof. exact host_point_cpu_in_range. Qed.

(* the statement about the expression itself (independent of the switch Stats.cpu_pct) *)
Theorem cpu_in_range_fixed : forall latest ref,
  counters_ok latest ref = true -> Stats.cpu_in_range (cpu_one_with cpu_pct_fixed latest ref) = true.
Proof. exact StatsFloat.cpu_in_range_fixed. Qed.

(* F25 (fixed): the OLD expression 100.0 * work / total is refuted — explains a regression to it *)
Theorem old_expression_refuted :
  exists latest ref, counters_ok latest ref = true
                     /\ Stats.cpu_in_range (cpu_one_with cpu_pct_current latest ref) = false.
Proof. exact StatsProofs.old_expression_refuted. Qed.

Theorem old_expression_refuted_overflow :
  exists latest ref, counters_ok latest ref = true
                     /\ f_is_finite (cpu_one_with cpu_pct_current latest ref) = false.
Proof. exact StatsProofs.old_expression_refuted_overflow. Qed.

Example model_on_old_witnesses :
  cpu_one f25_latest f25_ref = 0x1.9p+6%float /\ cpu_one (0x1p+1020, 0)%float (0, 0)%float = 0x1.9p+6%float.
Proof. exact cpu_model_on_old_witnesses. Qed.

(* KNOWN (F25b): cpu_process_statistics — a module-level function no class calls — keeps the old shape
   100.0 * (latest - ref) / host_work and returns 100 + ulp when the process work equals the host work *)
Theorem cpu_process_statistics_refuted :
  exists latest ref host v, proc_counters_ok latest ref host = true
    /\ cpu_process_statistics latest ref host = Ok v /\ Stats.cpu_in_range v = false.
Proof. exact StatsProofs.cpu_process_statistics_refuted. Qed.

Example cpu_in_range_hypothesis_satisfiable :
  counters_ok (0x1.8p+3, 0x1p+2)%float (0, 0)%float = true
  /\ cpu_one (0x1.8p+3, 0x1p+2)%float (0, 0)%float = 0x1.2cp+6%float.
Proof. vm_compute. split; reflexivity. Qed.

(* ---------------------------------------------------------------- stopped_process_dropped / pid_change_resets *)
Theorem stopped_process_dropped : forall periods depth ops ident s, ps_pid s = 0 -> 0 <= depth ->
  pshape_entry (pcshape_of (fst (pcomp_push (pcomp_run (pcomp_init periods depth) ops) ident s)))
               (ps_namespec s) ident = None.
Proof. exact pcomp_run_stopped_dropped. Qed.

Theorem pid_change_resets : forall c ident s, 0 < ps_pid s -> pcomp_pid_changed c ident s ->
  exists insts,
    pshape_entry (pcshape_of (fst (pcomp_push c ident s))) (ps_namespec s) ident = Some (ps_pid s, insts)
    /\ Forall (fun e => e = (ps_pid s, (0, 0, 0))) insts
    /\ length insts = length (dedup_periods [] (pc_periods c))
    /\ Forall (fun o => o = PNone) (snd (pcomp_push c ident s)).
Proof. exact pcomp_pid_change_resets. Qed.

(* ---------------------------------------------------------------- the runs of the theorems are the checked runs *)
Theorem checked_host_run_is_fold : forall ops c, snd (hrun c ops) = hcomp_run c ops.
Proof. exact hrun_is_hcomp_run. Qed.
Theorem checked_proc_run_is_fold : forall ops c, snd (prun c ops) = pcomp_run c ops.
Proof. exact prun_is_pcomp_run. Qed.

(* streams with appearance / wrap / disappearance, pid change / stop, evaluated *)
Example host_stream_example :
  let ss := [hs 0 [(0, 0)%float] [(1, (10, 10))];
             hs 5 [(1, 1)%float] [(1, (20, 20)); (2, (5, 5))];
             hs 10 [(2, 2)%float] [(1, (3, 30)); (2, (6, 6))];
             hs 15 [(3, 3)%float] [(1, (4, 40)); (2, (7, 7))];
             hs 20 [(4, 4)%float] [(1, (5, 50))]] in
  map (fun n => hshape_of (host_run (hinst_init 5 2) (firstn n ss))) [2; 3; 4; 5]%nat
  = [ (1, 1, [1], [(1, (1, [1; 1]))], [], []);
      (2, 2, [2], [(2, (1, [1; 1]))], [], []);
      (2, 2, [2], [(2, (2, [2; 2])); (1, (1, [1; 1]))], [], []);
      (2, 2, [2], [(1, (2, [2; 2]))], [], []) ].
Proof. exact timed_stream_example. Qed.

Example process_stream_example :
  let ops := [(1, mkPS 1 7 0 1 2 None); (1, mkPS 1 7 5 2 2 None); (1, mkPS 1 8 10 0 2 None);
              (1, mkPS 1 8 15 1 2 None); (1, mkPS 1 0 20 0 0 None)] in
  map (fun n => pcshape_of (pcomp_run (pcomp_init [5%float] 3) (firstn n ops))) [2; 3; 4; 5]%nat
  = [ [(1, [(1, (7, [(7, (1, 1, 1))]))])];
      [(1, [(1, (8, [(8, (0, 0, 0))]))])];
      [(1, [(1, (8, [(8, (1, 1, 1))]))])];
      [] ].
Proof. exact proc_stream_example. Qed.
