(* C04 — Start requests only go to eligible instances with spare load.
   Property-level theorems only; proofs are in proofs/EligibilityProofs.v, the model in model/Eligibility.v
   (placement imported from model/Strategy.v = property C14; sequencing cited from model/Sequencer.v = property C03).
   Tie to /repo: harness/drv_eligibility.py (suite 'eligibility').

   Reading guide.
   * [mkView L M rule known disabled load reqs] is the requester's view when a start request is emitted for a program:
     instance states / node of each instance / load running on each instance (L), what the names of an identifiers
     rule denote (M), the applicable rule, where the Supervisor knows the program / has it disabled, the program's
     expected_loading, ALL the starts already requested and not yet running (reqs).
   * [qualifies v reqs i] : i is seen RUNNING, knows the program, has it enabled, is permitted by the rule, and
     (true load of its node: every instance located there counted once) + (requests [reqs] pending on that node)
     + load <= 100.   [request_ok v t] = [qualifies v (v_reqs v) t] is THE property for one request.
   * [process_job d s local L M prule J c] models ApplicationStartJobs.process_job for the command c of a job whose
     current and planned commands are J; [load_requests J] are the job's OWN pending requests (what the code counts).
   * H_own_requests_are_all ([own_requests_are_all]) : on every node the job's own requests cover all the pending
     requests. It FAILS as soon as another application job has a pending request on the node: known finding
     c04-cross-application-pending-load. *)
From Coq Require Import List ZArith Bool.
From Sup Require Import Base Strategy StrategyProofs Eligibility EligibilityProofs.
From Sup Require Sequencer SequencerProofs.
Import ListNotations.
Open Scope Z_scope.

(* ---- possible_identifiers = permitted by the rule, known, enabled ('*' = every Supvisors instance) -------------- *)
Theorem possible_identifiers_spec : forall M rule known disabled i,
  In i (possible_identifiers M rule known disabled)
  <-> permitted M rule i = true /\ In i known /\ ~ In i disabled.
Proof. exact possible_identifiers_spec. Qed.

Theorem app_possible_identifiers_spec : forall M rule procs i,
  In i (app_possible_identifiers M rule procs)
  <-> procs <> [] /\ permitted M rule i = true
      /\ forall p, In p procs -> In i (ap_known p) /\ ~ In i (ap_disabled p).
Proof. exact app_possible_identifiers_spec. Qed.

(* ---- P0 start_target_eligible (PARTIAL: ALL_INSTANCES, under H_own_requests_are_all) ----------------------------- *)
Theorem start_target_eligible_partial : forall s local L M prule J c all t,
  nodes_nodup L = true ->
  nodes_consistent L = true ->
  layout_wf L (load_requests J) = true ->
  own_requests_are_all L (load_requests J) all = true ->
  c_target c = None ->
  process_job D_ALL_INSTANCES s local L M prule J c = Ok (Sent t) ->
  request_ok (mkView L M prule (c_known c) (c_disabled c) (c_load c) all) t = true.
Proof. exact start_target_eligible_partial. Qed.

(* without H_own_requests_are_all: eligible, and the cap holds for the requests the code counts *)
Theorem start_target_qualifies_for_own_requests : forall s local L M prule J c all t,
  nodes_nodup L = true -> nodes_consistent L = true -> layout_wf L (load_requests J) = true ->
  c_target c = None ->
  process_job D_ALL_INSTANCES s local L M prule J c = Ok (Sent t) ->
  qualifies (mkView L M prule (c_known c) (c_disabled c) (c_load c) all) (load_requests J) t = true.
Proof. exact start_target_qualifies_for_own_requests. Qed.

(* restricted distributions: the request goes where before() / on_command_added said, unchecked *)
Theorem restricted_target_is_preassigned : forall d s local L M prule J c,
  d <> D_ALL_INSTANCES -> c_stopped c = true ->
  process_job d s local L M prule J c = Ok (match c_target c with Some t => Sent t | None => NoResource end).
Proof. exact restricted_target_is_preassigned. Qed.

(* SINGLE_INSTANCE (PARTIAL: the view is the one at before(), the load is the start-sequence load) *)
Theorem single_instance_target_eligible_partial : forall s local L M arule managed procs J J' all,
  nodes_nodup L = true -> nodes_consistent L = true -> layout_wf L (load_requests J) = true ->
  j_identifiers J = [] ->
  job_before D_SINGLE_INSTANCE s local L M arule managed procs J = Ok J' ->
  (J' = J)
  \/ (exists t, j_identifiers J' = [t]
                /\ Forall2 (fun c c' => c' = retarget c t) (j_planned J) (j_planned J')
                /\ forall p, In p procs ->
                     qualifies (mkView L M arule (ap_known p) (ap_disabled p) (app_start_load managed procs) all)
                               (load_requests J) t = true).
Proof. exact single_instance_target_eligible_partial. Qed.

Theorem single_instance_sequence_program_fits : forall s local L M arule procs J J' all t p,
  nodes_nodup L = true -> nodes_consistent L = true -> layout_wf L (load_requests J) = true ->
  j_identifiers J = [] ->
  job_before D_SINGLE_INSTANCE s local L M arule true procs J = Ok J' ->
  j_identifiers J' = [t] ->
  (forall q, In q procs -> 0 <= ap_load q) ->
  In p procs -> 0 < ap_seq p ->
  qualifies (mkView L M arule (ap_known p) (ap_disabled p) (ap_load p) all) (load_requests J) t = true.
Proof. exact single_instance_sequence_program_fits. Qed.

(* SINGLE_NODE loop body and on_command_added (PARTIAL: view at assignment, job's own requests) *)
Theorem place_among_target_qualifies : forall s local L M arule idents reqs c c' t all,
  nodes_nodup L = true -> nodes_consistent L = true -> layout_wf L reqs = true ->
  (forall i, In i idents -> permitted M arule i = true) ->
  place_among s local L idents reqs c = Ok c' -> c_target c = None -> c_target c' = Some t ->
  qualifies (mkView L M arule (c_known c) (c_disabled c) (c_load c) all) reqs t = true.
Proof. exact place_among_target_qualifies. Qed.

(* ---- P0 no_resource_is_fatal -------------------------------------------------------------------------------------- *)
Theorem no_resource_is_fatal : forall s local L M prule J c all o,
  nodes_nodup L = true -> nodes_consistent L = true -> layout_wf L (load_requests J) = true ->
  c_stopped c = true -> c_target c = None ->
  process_job D_ALL_INSTANCES s local L M prule J c = Ok o ->
  (o = NoResource
   <-> no_resource_ok (mkView L M prule (c_known c) (c_disabled c) (c_load c) all) (load_requests J)
                      (scope s local L) = true)
  /\ (o = NoResource \/ exists t, o = Sent t).
Proof. exact no_resource_is_fatal. Qed.

(* the same branch in the Sequencer model (C03), where the placement is an oracle: no request, then the forced FATAL
   with reason -1 = 'No resource available', which force_process_state always reports *)
Theorem sequencer_no_place_forces_fatal : forall jid cid rest s c pr push outs s',
  aget cid (Sequencer.s_cmds s) = Some c -> Sequencer.c_kind c = Sequencer.KStart -> Sequencer.c_ident c = None ->
  Sequencer.get_proc s (Sequencer.c_app c) (Sequencer.c_proc c) = Some pr -> Sequencer.sp_stopped pr = true ->
  (forall o r, Sequencer.s_oracle s = Sequencer.OPlace o :: r -> o = None) ->
  Sequencer.step_aj_group jid (cid :: rest) s = Ok ((push, outs), s') ->
  outs = []
  /\ push = [Sequencer.Force (Sequencer.c_app c) (Sequencer.c_proc c) None (Sequencer.s_now s) ProcStatus.FATAL (-1);
             Sequencer.ProcFailure jid (Sequencer.c_app c) (Sequencer.c_proc c); Sequencer.AJGroup jid rest].
Proof. exact sequencer_no_place_forces_fatal. Qed.

Theorem sequencer_force_is_reported : forall a p target et fs reason s push outs s',
  Sequencer.step_force a p target et fs reason s = Ok ((push, outs), s') ->
  outs = [Sequencer.OForced a p fs reason target].
Proof. exact sequencer_force_is_reported. Qed.

(* ---- P0 no_duplicate_request ------------------------------------------------------------------------------------------ *)
(* a process that is not stopped() gets no request ... *)
Theorem not_stopped_not_requested : forall d s local L M prule J c,
  c_stopped c = false -> process_job d s local L M prule J c = Ok Skipped.
Proof. exact process_job_not_stopped. Qed.

(* ... in every run of the Sequencer's agenda machine from any state (C03): each StartReq was emitted for a process
   that was stopped(), while the popped group of an application job was processed *)
Theorem requests_only_from_groups : forall fuel ag s s' log,
  Forall SequencerProofs.call_ok ag -> SequencerProofs.exec_log fuel ag s [] = Ok (s', log) ->
  SequencerProofs.emitted_in_order SequencerProofs.emission_fact log.
Proof. exact SequencerProofs.requests_only_from_groups. Qed.

(* add_commands never adds a command for a (process, identifier) already current or planned; a start command has no
   identifier: any command of the process blocks it *)
Theorem add_command_refuses_duplicate : forall J c c0,
  In c0 (j_current J ++ j_planned J) -> c_proc c0 = c_proc c -> (c_target c = None \/ c_target c0 = c_target c) ->
  add_command J c = (J, false).
Proof. exact add_command_refuses_duplicate. Qed.

Theorem add_command_one_command_per_process : forall J c J' b,
  c_target c = None -> NoDup (map c_proc (j_current J ++ j_planned J)) ->
  add_command J c = (J', b) -> NoDup (map c_proc (j_current J' ++ j_planned J')).
Proof. exact add_command_one_command_per_process. Qed.

(* the two local facts bundled under the name of the design *)
Theorem no_duplicate_request :
  (forall d s local L M prule J c, c_stopped c = false -> process_job d s local L M prule J c = Ok Skipped)
  /\ (forall J c c0,
        In c0 (j_current J ++ j_planned J) -> c_proc c0 = c_proc c ->
        (c_target c = None \/ c_target c0 = c_target c) -> add_command J c = (J, false)).
Proof. exact no_duplicate_request. Qed.

(* ---- refutations = known findings ------------------------------------------------------------------------------------- *)
(* the full-strength statement of start_target_eligible for ALL_INSTANCES (any pending requests that include the job's
   own) is FALSE of the model of the current code: H_own_requests_are_all cannot be dropped *)
Theorem start_target_eligible_refuted :
  ~ (forall s local L M prule J c all t,
       nodes_nodup L = true -> nodes_consistent L = true -> layout_wf L (load_requests J) = true -> c_target c = None ->
       (forall m, node_req L (load_requests J) m <= node_req L all m) ->
       process_job D_ALL_INSTANCES s local L M prule J c = Ok (Sent t) ->
       request_ok (mkView L M prule (c_known c) (c_disabled c) (c_load c) all) t = true).
Proof. exact start_target_eligible_refuted. Qed.

(* B: the job's own requests are not all the pending requests: 60 pending + 60 requested on one node *)
Theorem cross_application_pending_load_refuted :
  exists s local L M prule J c all t,
    nodes_nodup L = true /\ nodes_consistent L = true /\ layout_wf L (load_requests J) = true /\ c_target c = None
    /\ process_job D_ALL_INSTANCES s local L M prule J c = Ok (Sent t)
    /\ request_ok (mkView L M prule (c_known c) (c_disabled c) (c_load c) all) t = false
    /\ qualifies (mkView L M prule (c_known c) (c_disabled c) (c_load c) all) (load_requests J) t = true
    /\ own_requests_are_all L (load_requests J) all = false.
Proof. exact cross_application_pending_load_refuted. Qed.

(* A: SINGLE_INSTANCE + process outside the start sequence: validated for 10, requested with 50 on a node at 60 *)
Theorem single_instance_on_demand_load_refuted :
  exists s local L M arule procs J c J' c' t,
    nodes_nodup L = true /\ nodes_consistent L = true /\ layout_wf L (load_requests J) = true
    /\ j_planned J = [c] /\ j_identifiers J = []
    /\ job_before D_SINGLE_INSTANCE s local L M arule true procs J = Ok J'
    /\ j_identifiers J' = [t] /\ j_planned J' = [c']
    /\ process_job D_SINGLE_INSTANCE s local L M [wildcard] (mkJobs [] [] [t]) c' = Ok (Sent t)
    /\ request_ok (mkView L M arule (c_known c) (c_disabled c) (c_load c) []) t = false
    /\ static_ok (mkView L M arule (c_known c) (c_disabled c) (c_load c) []) t = true
    /\ qualifies (mkView L M arule (c_known c) (c_disabled c) (app_start_load true procs) []) [] t = true.
Proof. exact single_instance_on_demand_load_refuted. Qed.

(* C: non-distributed application validated once at before(): load that arrives on the node afterwards is not re-checked
   when the later sequence groups are requested (validated 10 + 80, requested 40 on a node that carries 70 by then) *)
Theorem non_distributed_no_recheck_refuted :
  exists s local L0 L1 M arule procs J c J' c' t,
    nodes_nodup L1 = true /\ nodes_consistent L1 = true /\ layout_wf L1 [] = true
    /\ j_planned J = [c] /\ j_identifiers J = []
    /\ job_before D_SINGLE_INSTANCE s local L0 M arule true procs J = Ok J'
    /\ j_identifiers J' = [t] /\ j_planned J' = [c']
    /\ qualifies (mkView L0 M arule (c_known c) (c_disabled c) (app_start_load true procs) []) [] t = true
    /\ process_job D_SINGLE_INSTANCE s local L1 M [wildcard] (mkJobs [] [] [t]) c' = Ok (Sent t)
    /\ request_ok (mkView L1 M arule (c_known c) (c_disabled c) (c_load c) []) t = false
    /\ static_ok (mkView L1 M arule (c_known c) (c_disabled c) (c_load c) []) t = true
    /\ existsb (fun p => Z.ltb 0 (ap_seq p) && Z.eqb (ap_load p) (c_load c)) procs = true.
Proof. exact non_distributed_no_recheck_refuted. Qed.
