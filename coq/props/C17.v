(* C17 — XML-RPC commands are gated by the Supvisors state and fail cleanly: property-level theorems
   (model and specification in model/RpcGate.v, proofs in proofs/RpcGateProofs.v). *)
From Sup Require Import Base GenEnums GenRpc RpcGate RpcGateProofs.

(* The state enumeration of the model is the reflected SupvisorsStates enumeration. *)
Theorem C17_states_reflected : map sstate_code all_states = gen_SupvisorsStates_values.
Proof. exact sstate_codes_reflected. Qed.

(* Every method x every Supvisors state: the state check made by the code (reflected state lists of the _check_*
   helpers) accepts exactly the documented states. *)
Theorem C17_gate_matrix_matches_doc :
  forall m s, gate_allows m s = documented_gates (method_class_of m) s.
Proof. exact gate_matrix_matches_doc. Qed.

(* "from DISTRIBUTION on" is read as DISTRIBUTION .. SHUTTING_DOWN; the ordinal reading differs on FINAL only, and
   the code does not follow it there. *)
Theorem C17_readings_differ_only_on_final :
  forall c s, documented_gates c s <> documented_gates_ordinal c s ->
              s = S_FINAL /\ (c = StatusQuery \/ c = RestartShutdown).
Proof. exact readings_differ_only_on_final. Qed.

Theorem C17_final_ordinal_reading_refuted :
  exists m, gate_allows m S_FINAL <> documented_gates_ordinal (method_class_of m) S_FINAL.
Proof. exact final_ordinal_reading_refuted. Qed.

(* Outside its documented states a call is refused with BAD_SUPVISORS_STATE, whatever the parameters (the state
   check comes first), the node is unchanged and nothing is emitted. *)
Theorem C17_state_check_first :
  forall v r, documented_gates (method_class_of (rq_meth r)) (nv_state v) = false ->
              call v r = (v, [], Fault F_BAD_SUPVISORS_STATE).
Proof. exact state_check_first. Qed.

Theorem C17_served_only_in_documented_states :
  forall v r v' outs, call v r = (v', outs, Served) ->
                      documented_gates (method_class_of (rq_meth r)) (nv_state v) = true.
Proof. exact served_only_in_documented_states. Qed.

(* A call that is not served — fault or internal error — leaves the node unchanged and emits no start, no stop,
   no message. *)
Theorem C17_rejected_is_effect_free :
  forall v r v' outs oc, call v r = (v', outs, oc) -> oc <> Served -> v' = v /\ outs = [].
Proof. exact rejected_is_effect_free. Qed.

(* Fault codes in an allowed state. *)
Theorem C17_fault_codes_strategy :
  forall v r, gate_allows (rq_meth r) (nv_state v) = true -> documented_refusal v r = false ->
              bad_strategy r = true -> call v r = (v, [], Fault F_INCORRECT_PARAMETERS).
Proof. exact fault_codes_strategy. Qed.

Theorem C17_fault_codes_name :
  forall v r, gate_allows (rq_meth r) (nv_state v) = true -> documented_refusal v r = false ->
              bad_strategy r = false -> hostile_name r = false -> unknown_name r = true ->
              call v r = (v, [], Fault F_BAD_NAME).
Proof. exact fault_codes_name. Qed.

Theorem C17_fault_codes_not_managed :
  forall v r, gate_allows (rq_meth r) (nv_state v) = true ->
              bad_strategy r = false -> unknown_name r = false -> unmanaged_app r = true ->
              call v r = (v, [], Fault F_NOT_MANAGED).
Proof. exact fault_codes_not_managed. Qed.

(* An ill-formed regular expression, or an identifier designating several instances where one is needed, give
   INCORRECT_PARAMETERS; a 'group:*' namespec given to start_args gives BAD_NAME. *)
Theorem C17_fault_codes_regex :
  forall v r, gate_allows (rq_meth r) (nv_state v) = true -> bad_strategy r = false -> bad_regex r = true ->
              call v r = (v, [], Fault F_INCORRECT_PARAMETERS).
Proof. exact fault_codes_regex. Qed.

Theorem C17_fault_codes_ambiguous_instance :
  forall v r, gate_allows (rq_meth r) (nv_state v) = true -> documented_refusal v r = false ->
              ambiguous_instance r = true -> call v r = (v, [], Fault F_INCORRECT_PARAMETERS).
Proof. exact fault_codes_ambiguous_instance. Qed.

Theorem C17_fault_codes_start_args_group :
  forall v r, group_not_applicable r = true -> unknown_name r = false -> hostile_name r = false ->
              call v r = (v, [], Fault F_BAD_NAME).
Proof. exact fault_codes_start_args_group. Qed.

(* get_network_info accepts an identifier, a nick identifier or a stereotype designating one instance, in every state. *)
Theorem C17_network_info_accepts_nick :
  forall v r, network_info_designates_one r = true -> call v r = (v, [], Served).
Proof. exact network_info_accepts_nick. Qed.

(* restart / shutdown without a known Master: BAD_SUPVISORS_STATE, node unchanged, nothing emitted. *)
Theorem C17_restart_shutdown_no_master_refused :
  forall v r, is_restart_or_shutdown (rq_meth r) = true -> nv_master v = MNone ->
              call v r = (v, [], Fault F_BAD_SUPVISORS_STATE).
Proof. exact restart_shutdown_no_master_refused. Qed.

(* Model |= specification, outside the named known-finding class (a namespec that is not a string). *)
Theorem C17_model_satisfies_spec :
  forall v r, in_known_class v r = false -> spec_ok v r (model_obs v r) = true.
Proof. exact model_satisfies_spec. Qed.

(* The remaining finding (full statement false of the faithful model; witness replayed on the real RPCInterface):
   a namespec that is not a string raises AttributeError. *)
Theorem C17_namespec_not_string_refuted :
  exists v r, class_namespec_not_string v r = true /\ call v r = (v, [], CrashO RAttributeError).
Proof. exact namespec_not_string_refuted. Qed.

Theorem C17_model_satisfies_spec_unrestricted_refuted :
  exists v r, spec_ok v r (model_obs v r) = false.
Proof. exact model_satisfies_spec_unrestricted_refuted. Qed.
