(* C05 — Conflicts are detected and conciliated exactly as the strategy says.
   Property-level theorems (proofs in proofs/ConciliationProofs.v; model in model/Conciliation.v). *)
From Sup Require Import GenProc Conciliation ConciliationProofs.
Open Scope Z_scope.

(* model |= Spec_C05: on every process table satisfying H_c05 (what C11 guarantees when no listed copy is
   STOPPING) and for each of the six strategies, what the model does with context.conflicts() is accepted by the
   specification written from the property text (detection, stops exactly where the strategy says, never a stop
   outside a conflict, one start per process for RESTART, one failure job per process for RUNNING_FAILURE). *)
Theorem C05_model_refines_spec :
  forall c s, H_c05 c = true -> spec_accepts c s (run_case c s (map pv_id (conflicts c))) = true.
Proof. exact model_refines_spec. Qed.

(* conflict_detection: Context.conflicting() iff some process of a MANAGED application has >= 2 running identifiers *)
Theorem C05_conflict_detection :
  forall c, conflicting c = true <->
    exists a p, In a c /\ av_managed a = true /\ In p (av_procs a) /\ (2 <= length (pv_running p))%nat.
Proof. exact conflict_detection. Qed.

Theorem C05_unmanaged_never_conflicting :
  forall c, (forall a, In a c -> av_managed a = false) -> conflicting c = false.
Proof. exact unmanaged_never_conflicting. Qed.

(* operation_to_conciliation: the Master in OPERATION goes to CONCILIATION iff no start/stop job is in progress
   and a conflict exists *)
Theorem C05_operation_to_conciliation :
  forall sb pb cf, operation_next sb pb cf = CConciliation <-> sb = false /\ pb = false /\ cf = true.
Proof. exact operation_to_conciliation. Qed.

(* in CONCILIATION: back to OPERATION iff idle and no conflict is left; conciliate again iff idle and a (new)
   conflict is there; nothing while jobs are in progress *)
Theorem C05_conciliation_next :
  forall sb pb cf,
    (fst (conciliation_next sb pb cf) = COperation <-> sb = false /\ pb = false /\ cf = false)
    /\ (snd (conciliation_next sb pb cf) = true <-> sb = false /\ pb = false /\ cf = true).
Proof. exact conciliation_next_spec. Qed.

(* stops_exactly_strategy, in terms of running_identifiers (hypothesis Hyp only: distinct processes,
   running_identifiers duplicate-free and inside info_map): no exception; no stop request outside a conflicting
   process or outside its running identifiers; SENICIDE / INFANTICIDE stop every copy but one of minimal / maximal
   uptime; STOP, RESTART, RUNNING_FAILURE stop every copy; USER calls nothing. *)
Theorem C05_stops_exactly_strategy :
  forall c s, Hyp c ->
  let '(calls, e, pl) := outcome c s in
  e = None
  /\ (forall p i, In (p, i) (pl_stops pl) ->
        exists v, In v (conflicts c) /\ pv_id v = p /\ In i (pv_running v) /\ (2 <= length (pv_running v))%nat)
  /\ (forall v, In v (conflicts c) ->
        match s with
        | Senicide =>
            exists k, In k (pv_running v)
              /\ (forall j, In j (pv_running v) -> uptime_of v k <= uptime_of v j)
              /\ forall i, In (pv_id v, i) (pl_stops pl) <-> In i (pv_running v) /\ i <> k
        | Infanticide =>
            exists k, In k (pv_running v)
              /\ (forall j, In j (pv_running v) -> uptime_of v j <= uptime_of v k)
              /\ forall i, In (pv_id v, i) (pl_stops pl) <-> In i (pv_running v) /\ i <> k
        | User => forall i, ~ In (pv_id v, i) (pl_stops pl)
        | Stop | RunningFailure => forall i, In (pv_id v, i) (pl_stops pl) <-> In i (pv_running v)
        | Restart => pv_is_running v = true -> forall i, In (pv_id v, i) (pl_stops pl) <-> In i (pv_running v)
        end)
  /\ (s = User -> calls = [] /\ pl = plan_empty).
Proof. exact stops_exactly_strategy. Qed.

(* restart_starts_one (as far as strategy.py and Stopper.restart_process go): exactly one deferred start per
   conflicting process, no direct start, no failure job *)
Theorem C05_restart_starts_one :
  forall c, Hyp c -> (forall v, In v (conflicts c) -> pv_is_running v = true) ->
  let '(_, _, pl) := outcome c Restart in
  pl_deferred pl = map pv_id (conflicts c) /\ NoDup (pl_deferred pl) /\ pl_direct pl = [] /\ pl_failure pl = [].
Proof. exact restart_starts_one. Qed.

Theorem C05_only_restart_starts :
  forall c s, Hyp c -> s <> Restart -> let '(_, _, pl) := outcome c s in pl_deferred pl = [] /\ pl_direct pl = [].
Proof. exact only_restart_starts. Qed.

(* RUNNING_FAILURE hands each conflicting process once to the failure handler and triggers it (then C06) *)
Theorem C05_failure_strategy_delegates :
  forall c, Hyp c ->
  let '(calls, _, pl) := outcome c RunningFailure in
  pl_failure pl = map pv_id (conflicts c) /\ NoDup (pl_failure pl) /\ In CTriggerJobs calls.
Proof. exact failure_strategy_delegates. Qed.

(* conflict_cleared: after the STOPPED events of exactly the requested stops every formerly conflicting process has
   at most one running identifier ... *)
Theorem C05_conflict_cleared :
  forall c s v, Hyp c -> s <> User -> (s = Restart -> pv_is_running v = true) -> In v (conflicts c) ->
  let '(_, _, pl) := outcome c s in (length (ack (pv_running v) (stops_for pl (pv_id v))) <= 1)%nat.
Proof. exact conflict_cleared. Qed.

(* ... hence no conflict remains in the table and the Master returns to OPERATION at its next evaluation *)
Theorem C05_conflict_cleared_ctx :
  forall c s, Hyp c -> s <> User -> (s = Restart -> forall v, In v (conflicts c) -> pv_is_running v = true) ->
  let '(_, _, pl) := outcome c s in
  conflicting (apply_acks (pl_stops pl) c) = false
  /\ conciliation_next false false (conflicting (apply_acks (pl_stops pl) c)) = (COperation, false).
Proof. exact conflict_cleared_ctx. Qed.

(* `ack` is what the C11 model of ProcessStatus does with those STOPPED events *)
Theorem C05_ack_is_status_synthesis :
  forall stops p now p', stop_events p stops now = Ok p' ->
    ProcStatus.p_running p' = ack (ProcStatus.p_running p) stops.
Proof. exact stop_events_ack. Qed.

(* user_stays: USER requests nothing; CONCILIATION is kept while the conflict is there *)
Theorem C05_user_stays :
  forall c, Hyp c ->
  let '(calls, _, pl) := outcome c User in
  calls = [] /\ pl = plan_empty
  /\ (conflicting c = true -> fst (conciliation_next false false (conflicting c)) = CConciliation)
  /\ (conflicting c = false -> fst (conciliation_next false false (conflicting c)) = COperation).
Proof. exact user_stays. Qed.

(* The hypothesis H_c05 cannot be dropped: a copy that is STOPPING stays in running_identifiers, the code then
   sees a conflict where the property sees one running copy, and SENICIDE stops that copy (finding
   `stopping-copy`). H_c05 excludes exactly this class. *)
Theorem C05_stopping_copy_refuted :
  wf_ctx stopping_witness = true /\ has_stopping_listed stopping_witness = true
  /\ spec_conflicts stopping_witness = []
  /\ conflicting stopping_witness = true
  /\ (let '(_, _, _, stops, _, _, _) := run_case stopping_witness Senicide (map pv_id (conflicts stopping_witness))
      in stops = [(10, 1)])
  /\ spec_accepts stopping_witness Senicide
       (run_case stopping_witness Senicide (map pv_id (conflicts stopping_witness))) = false.
Proof. exact stopping_copy_refuted. Qed.

Theorem C05_H_excludes_stopping :
  forall c, H_c05 c = true -> has_stopping_listed c = false.
Proof. exact H_c05_no_stopping. Qed.

(* Hypotheses are satisfiable: a table with a three-copy conflict (uptime tie), a single-copy process and a
   duplicate in an unmanaged application. *)
Example C05_demo_H : H_c05 demo_ctx = true.
Proof. exact demo_H. Qed.

Example C05_demo_senicide :
  run_case demo_ctx Senicide [10] =
  (true, [10], [CStop 10 (Some [2; 3]); CStopperNext], [(10, 2); (10, 3)], [], [], None).
Proof. exact demo_senicide. Qed.

Example C05_demo_restart :
  run_case demo_ctx Restart [10] =
  (true, [10], [CRestart 10; CStopperNext], [(10, 1); (10, 2); (10, 3)], [10], [], None).
Proof. exact demo_restart. Qed.
