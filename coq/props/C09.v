(* C09.v — property-level theorems (statements restated, proofs by reference to proofs/SequencerProofs.v).
   Model: model/Sequencer.v (agenda machine of Starter + Stopper). Tie to /repo: harness/drv_sequencer.py. *)
From Sup Require Import Base GenProc GenEnums GenSeq ProcStatus Sequencer SequencerProofs.
From Coq Require Import ZArith List Bool.
Import ListNotations.
Open Scope Z_scope.

(* stop_request_order / SEQ-shape (every state): a stop group leaves the plan only when no command of the job is current, and it is the group of GREATEST sequence number; the whole group is handed to ONE AJGroup call (same_sequence_together) *)
Theorem C09_seq_shape_stop_group_is_maximum : forall jid s push outs s' j,
  step_aj_next jid s = Ok ((push, outs), s') -> aget jid (s_jobs s) = Some j -> j_kind j = KStop ->
  forall group, In (AJGroup jid group) push ->
    j_current j = [] /\ exists seq, aget seq (j_planned j) = Some group /\ forall y, In y (akeys (j_planned j)) -> y <= seq.
Proof. exact stop_group_is_maximum. Qed.

(* stop_only_where_running, every run from any state: each StopReq targets an identifier on which ProcessStatus.running_on held when it was emitted *)
Theorem C09_stop_only_where_running : forall fuel ag s s' log,
  Forall call_ok ag -> exec_log fuel ag s [] = Ok (s', log) -> emitted_in_order emission_fact log.
Proof. exact requests_only_from_groups. Qed.

(* stop_request_order, partial (same theorem as C03, kind-generic): for every guarded history, at every stop request every current command of the job belongs to the group popped last and every key still planned is SMALLER than its key; popped keys strictly decrease *)
Theorem C09_stop_request_order_partial : forall fuel cf ops s' gh' log,
  forallb (fun t => op_ok (fst (fst t))) ops = true ->
  run_g fuel (init_st cf) [] ops [] = GOk s' gh' log ->
  seq_shape_inv [] s' gh' /\ Forall entry_ok log.
Proof. exact seq_shape_from_init. Qed.

(* same_sequence_together (every state): a popped group is handed, whole, to ONE AJGroup call, which the agenda machine runs to exhaustion within the same operation *)
Theorem C09_same_sequence_together : forall jid s push outs s',
  step_aj_next jid s = Ok ((push, outs), s') ->
  (push = [] /\ s' = s) \/
  (exists j seq group,
     aget jid (s_jobs s) = Some j /\ j_current j = [] /\
     pickup (j_kind j) (akeys (j_planned j)) = Some seq /\ aget seq (j_planned j) = Some group /\
     push = [AJGroup jid group; AJNext jid] /\
     s' = set_jobs (aset jid (set_job_fields j (adel seq (j_planned j)) [] (j_stop_request j)) (s_jobs s)) s).
Proof. exact aj_next_cases. Qed.

(* stop_application_order, local form *)
Theorem C09_stop_application_order_local : forall k s push outs s',
  step_next_pop k s = Ok ((push, outs), s') ->
  push = [] \/
  exists seq cur,
    cm_current (get_cmdr k s) = [] /\
    aget seq (cm_planned (get_cmdr k s)) = Some cur /\
    (forall y, In y (akeys (cm_planned (get_cmdr k s))) ->
       match k with KStart => seq <= y | KStop => y <= seq end) /\
    push = [CStartJobs k cur; CNext k] /\
    get_cmdr k s' = mkCmdr (adel seq (cm_planned (get_cmdr k s))) cur.
Proof. exact application_pop_is_extremal. Qed.

(* stop_request_order + stop_application_order along whole histories, partial (kind-generic theorem, see C03) *)
Theorem C09_stop_application_order_partial : forall fuel cf ops s' gh' log elog,
  forallb (fun t => op_ok2 (fst (fst t))) ops = true ->
  run_gc fuel (init_st cf) [] ops [] [] = GCOk s' gh' log elog ->
  seq_shape_inv [] s' gh' /\ Forall entry_ok log /\ Forall emitted_by_current_job elog.
Proof. exact ordering_partial. Qed.

(* the Stopper pickup logic (reflected from /repo) is the maximum of the planned keys, at both levels *)
Theorem C09_pickup_stop_max : forall keys k, pickup KStop keys = Some k -> In k keys /\ forall y, In y keys -> y <= k.
Proof. exact pickup_stop_max. Qed.

(* KNOWN FINDING reentrant-next-keyerror (restart path of the Stopper) *)
Theorem C09_no_internal_failure_refuted :
  exists cf ops, last (run default_fuel (init_st cf) ops) (OCrash OtherError) = OCrash KeyError.
Proof. exact no_internal_failure_refuted. Qed.
