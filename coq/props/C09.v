(* C09.v — property-level theorems (statements restated, proofs by reference to proofs/SequencerProofs.v).
   Model: model/Sequencer.v (agenda machine of Starter + Stopper). Tie to /repo: harness/drv_sequencer.py. *)
From Sup Require Import Base GenProc GenEnums GenSeq ProcStatus Sequencer SequencerProofs.
From Coq Require Import ZArith List Bool.
Import ListNotations.
Open Scope Z_scope.

(* stop_request_order / SEQ-shape (every state): a stop group leaves the plan only when no command of the job is current, and it is the group of GREATEST sequence number; the whole group is handed to ONE AJGroup call (same_sequence_together) *)
Theorem C09_seq_shape_stop_group_is_maximum : forall jid s push outs s' j,
  step_aj_next jid s = Ok ((push, outs), s') -> aget jid (s_jobs s) = Some j -> j_kind j = KStop ->
  forall group, In (AJGroup jid group) push ->
    j_current j = [] /\ exists seq, aget seq (j_planned j) = Some group /\ forall y, In y (akeys (j_planned j)) -> y <= seq.
Proof. exact stop_group_is_maximum. Qed.

(* stop_only_where_running, every run from any state: each StopReq targets an identifier on which ProcessStatus.running_on held when it was emitted *)
Theorem C09_stop_only_where_running : forall fuel ag s s' log,
  Forall call_ok ag -> exec_log fuel ag s [] = Ok (s', log) -> emitted_in_order emission_fact log.
Proof. exact requests_only_from_groups. Qed.

(* the Stopper pickup logic (reflected from /repo) is the maximum of the planned keys, at both levels *)
Theorem C09_pickup_stop_max : forall keys k, pickup KStop keys = Some k -> In k keys /\ forall y, In y keys -> y <= k.
Proof. exact pickup_stop_max. Qed.

(* KNOWN FINDING reentrant-next-keyerror (restart path of the Stopper) *)
Theorem C09_no_internal_failure_refuted :
  exists cf ops, last (run default_fuel (init_st cf) ops) (OCrash OtherError) = OCrash KeyError.
Proof. exact no_internal_failure_refuted. Qed.
